"""C04 — connected requests fit the connection; large data is tiled by fragments (E3 over sizes x E1 over fragment lengths)."""
from vmc.core.explore import Ctx, explore
from vmc.core.report import Report
from vmc.ref import enip, net, logix, projgen
from vmc.ref.projects import fill_image
from . import logixreq as Q
from .harness import call

META = {
    "rule": "project P5: for connection size S in {500, 4000} a tag for every byte size in [S-64,S+64], [2S-32,2S+32], [3S-16,3S+16] and "
    "{1,2,3,4,S/2}, for element widths 1,2,4,8 and structures of 12 and 88 bytes and strings of capacity 82, 20 and 1 (whose data area is 4 bytes smaller than the element), with short (3) and long (40) names; each is read "
    "and written whole through the single-request path and through the multi path (paired with a small request, both orders), on v20 "
    "(symbolic paths) and v32 (symbol-instance paths), with the large Forward Open accepted and refused; the controller's fragment "
    "lengths are explored with deviation bound 2 (quick 1); mixed lists of medium tags whose reply sizes sum to every value in "
    "[S-48, S+8]; structures whose single element is around or above one fragment (S-28 .. 2S+200 bytes) as 1, 2 and 3 elements; "
    "write lists that overflow into further multi-service packets at every boundary. Monitors inside the target: every connected data item <= granted size; every solicited reply <= granted size; "
    "per transfer the (offset,length) pairs start at 0, are contiguous and cover the value exactly; each follow-up read asks for "
    "the bytes delivered so far; and the transfer's result is correct. distinct = distinct (world, tag, operation, path, choices).",
    "explanation": "exhaustive size-window sweep with size/tiling monitors; deviation-bounded fragment lengths",
    "assumptions": [
        "the connection size counts the whole class-3 packet including the sequence count (CIP Vol 1 3-5.5.1.1)",
        "the controller accepts any byte split of a fragmented write (the property only demands contiguity and coverage)",
    ],
}


def windows(S, tier="thorough"):
    s = set(range(S - 64, S + 65)) | set(range(2 * S - 32, 2 * S + 33)) | set(range(3 * S - 16, 3 * S + 17)) | {1, 2, 3, 4, S // 2}
    if S == 4000 and tier != "thorough":
        # quick: the 1x window completely, every 8th size of the 2x / 3x windows (the 500-byte connection covers those completely)
        s = set(range(S - 64, S + 65)) | set(range(2 * S - 32, 2 * S + 33, 8)) | set(range(3 * S - 16, 3 * S + 17, 8)) | {1, 2, 3, 4, S // 2}
    return sorted(x for x in s if x > 0)


def big_element_sizes(S):
    """Structure sizes around and above one fragment: a single element does not fit one request."""
    return (S - 28, S - 20, S - 16, S - 12, S, S + 100, 2 * S + 200)


def build_world(S, elem, struct_size, name_len, pers, choices=("rfrag",), tier="thorough", sizes=None, string_cap=None):
    import pycomm3

    sizes = sizes or windows(S, tier)
    proj = projgen.p5_ladder(sizes, elem=elem, struct_size=struct_size, name_len=name_len, string_cap=string_cap)
    fill_image(proj, 0)
    ctl = logix.LogixController(proj, pers, None, choices=choices)
    pol = enip.Policy(large_fo="accept" if S == 4000 else "refuse08")
    t = enip.Target(ctl, pol, keep_cip=False)
    w = net.World(t, io_budget=10**9)
    w.__enter__()
    d = pycomm3.LogixDriver("10.0.0.1")
    r = call(d.open)
    return proj, ctl, t, w, d, r


def tiles(entries, total):
    pos = 0
    for off, ln in entries:
        if off != pos or ln <= 0:
            return False
        pos += ln
    return pos == total


def transfer_problems(ctl, t, n_ev, tagname, total, op):
    """Monitors for one API call."""
    probs = []
    for tag, detail in t.events[n_ev:]:
        if tag.startswith("C04"):
            probs.append((tag[4:], detail))
    kind = "readfrag" if op == "read" else "writefrag"
    frs = [x for x in ctl.svc_log if x[0] == kind and x[1] == tagname]
    if frs and not tiles([(x[4], x[5]) for x in frs], total):
        probs.append(("fragments-do-not-tile", f"{op} of {tagname} ({total} bytes): fragments (offset,len) = {[(x[4], x[5]) for x in frs][:8]}"))
    return probs


def shards(tier, seed):
    sh = []
    for S in (500, 4000):
        for pers in ("v20", "v32"):
            for elem, ss in (("SINT", None), ("INT", None), ("DINT", None), ("LINT", None), (None, 12), (None, 88)):
                for nl in (3, 40):
                    if nl == 40 and elem not in ("SINT", "DINT") and tier != "thorough":
                        continue
                    if S == 4000 and tier != "thorough" and (elem in ("INT", "LINT") or ss == 12 or (nl == 40 and elem != "SINT")):
                        continue  # quick: three element kinds at 4000; thorough: all
                    sh.append(("ladder", S, pers, elem, ss, nl))
            sh.append(("mixed", S, pers))
        # the same lists on a driver whose first connection attempt was refused altogether (target out of connections) and that was then re-opened
        sh.append(("mixed", S, "v20", "busy2"))
        # the same lists (and the big-element ladder) with the library logging at its most verbose level
        sh.append(("mixed", S, "v32", "debuglog"))
        sh.append(("ladder", S, "v20", None, S + 100, 3, "big", "debuglog"))
        sh.append(("ladder", S, "v32", "INT", None, 3, "debuglog"))
        # arrays of strings: the element is a structure whose data area is 4 bytes smaller than the element
        for cap in (82, 20, 1):
            sh.append(("ladder", S, "v32" if cap == 20 else "v20", None, ("str", cap), 3))
        # controllers older than the large connection (firmware below 20) that nevertheless grant whatever is asked, and the first call of a driver
        sh += [("boolarray", S, "v20"), ("boolarray", S, "v32")]
        sh += [("mixed", S, "v17"), ("mixed", S, "v18"), ("ladder", S, "v18", "SINT", None, 3), ("first-call", S, "m800"), ("first-call", S, "v32")]
        for ss in big_element_sizes(S):
            sh.append(("ladder", S, "v20" if ss % 8 else "v32", None, ss, 3, "big"))
    return sh


def describe(tier, seed):
    return {"bounds": {"connection_sizes": [500, 4000], "sizes_per_ladder": len(windows(500)), "fragment_deviation_bound": 2 if tier == "thorough" else 1}, "exhaustive": True}


def run_shard(shard, tier, seed):
    rep = Report()
    kind = shard[0]
    if kind == "ladder":
        _, S, pers, elem, ss, nl = shard[:6]
        big = len(shard) > 6 and shard[6] == "big"
        cap = None
        if isinstance(ss, (tuple, list)):
            cap, ss = ss[1], None
        proj, ctl, t, w, d, r = build_world(S, elem or "DINT", ss, nl, pers, tier=tier, sizes=[ss, 2 * ss, 3 * ss] if big else None, string_cap=cap)
        cfg = (S, pers, elem or (f"string{cap}" if cap else f"struct{ss}"), nl)
        if r != ("ok", True):
            rep.case((cfg, "open"), outcome="open-failed")
            rep.violation("size/open-failed", f"{cfg}: open() -> {r!r:.120}", {"shard": list(shard), "tag": None, "op": "open", "path": None, "choices": []})
            w.__exit__()
            return rep
        bound = 2 if tier == "thorough" else 1
        tags = [tg for tg in proj.user_tags() if tg.name != "small"]
        for tg in tags:
            n = tg.elements
            total = tg.nbytes
            text = f"{tg.name}{{{n}}}" if n > 1 else tg.name
            win = "big-element" if big else "near-1x" if abs(total - S) <= 64 else "near-2x" if abs(total - 2 * S) <= 32 else "near-3x" if abs(total - 3 * S) <= 16 else "small"
            for path in ("single", "multi-first", "multi-last"):
                lst = [text] if path == "single" else [text, "small"] if path == "multi-first" else ["small", text]
                idx = lst.index(text)

                # ---- read
                def scenario(ctx, lst=lst):
                    ctl.ctx = ctx
                    ctl.svc_log.clear()
                    n_ev = len(t.events)
                    out = call(d.read, *lst)
                    return out, n_ev

                def on_exec(ctx, res, lst=lst, idx=idx, path=path, tg=tg, total=total, text=text, win=win):
                    out, n_ev = res
                    probs = transfer_problems(ctl, t, n_ev, tg.full_name, total, "read")
                    if out[0] != "ok":
                        probs.append(("exception", f"read raised {out!r:.100}"))
                    else:
                        g = out[1][idx] if len(lst) > 1 else out[1]
                        want = Q.read_expect(proj, text)
                        if not bool(g):
                            probs.append(("not-readable", f"error {getattr(g, 'error', None)!r:.80}"))
                        elif not Q.same_value(g.value, want[1]):
                            probs.append(("wrong-value", f"value differs from controller memory (first elements {str(g.value)[:40]})"))
                        if len(lst) > 1 and not bool(out[1][1 - idx]):
                            probs.append(("neighbour-failed", f"the small request in the same call failed: {out[1][1 - idx].error!r:.80}"))
                    devs = "frag-choice" if ctx.deviations else "default"
                    nfr = sum(1 for x in ctl.svc_log if x[0] == "readfrag")
                    rep.case((cfg, tg.name, "read", path, tuple(ctx.choices)), outcome=(f"ok:read/{path}/{min(nfr, 5)}-fragments") if not probs else probs[0][0])
                    for clause, detail in probs[:3]:
                        rep.violation(f"read/{path}/{win}/{clause}/{devs}", f"{cfg} read {lst!r} ({total} data bytes, connection {S}): {detail} (choices {ctx.choices!r})",
                                      {"shard": list(shard), "tag": tg.name, "op": "read", "path": path, "choices": list(ctx.choices)})
                explore(scenario, bound, on_exec)
                ctl.ctx = None
                # ---- write
                pre = proj.snapshot()
                esz = Q.type_size(tg.typ)
                if isinstance(tg.typ, str):
                    vals = [((i * 7 + 3) % 120) for i in range(n)]
                    value = vals if n > 1 else vals[0]
                else:
                    if tg.typ.string_capacity is not None:
                        c_ = tg.typ.string_capacity
                        value = [("s%d" % i * 40)[: (i * 7) % (c_ + 1)] for i in range(n)] if n > 1 else "x" * c_
                    else:
                        value = [Q.struct_value(tg.typ, i) for i in range(n)] if n > 1 else Q.struct_value(tg.typ, 1)
                reqs = [(text, value)] if path == "single" else [(text, value), ("small", 77)] if path == "multi-first" else [("small", 77), (text, value)]
                ctl.svc_log.clear()
                n_ev = len(t.events)
                out = call(d.write, *(reqs if len(reqs) > 1 else reqs[0]))
                probs = transfer_problems(ctl, t, n_ev, tg.full_name, total, "write")
                if out[0] != "ok":
                    probs.append(("exception", f"write raised {out!r:.100}"))
                else:
                    g = out[1][idx] if len(reqs) > 1 else out[1]
                    e = Q.write_expect(proj, text, value)
                    if not bool(g):
                        probs.append(("not-writable", f"error {getattr(g, 'error', None)!r:.80}"))
                    else:
                        img, mask = e.after(pre[tg.full_name])
                        if any((a ^ b) & m for a, b, m in zip(tg.data, img, mask)):
                            probs.append(("wrong-memory", "controller memory differs from the written value"))
                        ws = [x for x in ctl.svc_log if x[1] == tg.full_name and x[0] in ("write", "writefrag")]
                        if not any(x[0] == "writefrag" for x in ws) and len(ws) != 1:
                            probs.append(("not-once", f"{len(ws)} write services for one request"))
                    if len(reqs) > 1 and not bool(out[1][1 - idx]):
                        probs.append(("neighbour-failed", f"the small request in the same call failed: {out[1][1 - idx].error!r:.80}"))
                proj.restore(pre)
                nfw = sum(1 for x in ctl.svc_log if x[0] == "writefrag")
                rep.case((cfg, tg.name, "write", path), outcome=(f"ok:write/{path}/{min(nfw, 5)}-fragments") if not probs else probs[0][0])
                for clause, detail in probs[:3]:
                    rep.violation(f"write/{path}/{win}/{clause}", f"{cfg} write {[x for x, _ in reqs]!r} ({total} data bytes, connection {S}): {detail}",
                                  {"shard": list(shard), "tag": tg.name, "op": "write", "path": path, "choices": []})
        # data that looks like protocol: value bytes spelling the structure marker (a0 02), a type code (c4 00), a status (06 00) - wherever
        # the controller cuts the fragments, a fragment may start with them; atomic ladders only, every 4th fragmented tag
        if isinstance(tags[0].typ, str):
            for pat in (b"\xa0\x02", b"\xc4\x00\xa0\x02", b"\x06\x00", b"\xff\xff\xa0\x02\x00\x00\xa0\x02"):
                for tg in [x for x in tags if x.nbytes > S - 16][::4]:
                    keep = bytes(tg.data)
                    tg.data[:] = (pat * (len(tg.data) // len(pat) + 1))[: len(tg.data)]
                    n = tg.elements
                    text = f"{tg.name}{{{n}}}" if n > 1 else tg.name

                    def scenario(ctx, text=text):
                        ctl.ctx = ctx
                        ctl.svc_log.clear()
                        return call(d.read, text)

                    def on_exec(ctx, out, tg=tg, text=text, pat=pat):
                        want = Q.read_expect(proj, text)
                        ok = out[0] == "ok" and bool(out[1]) and Q.same_value(out[1].value, want[1])
                        rep.case((cfg, tg.name, "read-pattern", pat.hex(), tuple(ctx.choices)), outcome="ok:pattern" if ok else "pattern-bad")
                        if not ok:
                            rep.violation(f"read/single/data-pattern/{'wrong-value' if out[0] == 'ok' and bool(out[1]) else 'not-readable'}",
                                          f"{cfg} read {text!r} ({tg.nbytes} bytes of the pattern {pat.hex()}, connection {S}): {str(out)[:100]} (choices {ctx.choices!r})",
                                          {"shard": list(shard), "tag": tg.name, "op": "read", "path": "single", "choices": list(ctx.choices)})
                    explore(scenario, 1, on_exec)
                    ctl.ctx = None
                    tg.data[:] = keep
        rep.sample({"config": cfg, "tags": len(tags), "sizes": f"{tags[0].nbytes}..{tags[-1].nbytes}"})
        call(d.close)
        w.__exit__()
    elif kind == "boolarray":
        # BOOL arrays are read in 32-bit words from the START of the array up to the last element asked for: what a request solicits grows
        # with its start index, not only with its count
        import pycomm3

        _, S, pers = shard[:3]
        nd = (S // 4) * 2 + 40
        proj = projgen.Project("P5b")
        proj.tag("bits", "DWORD", (nd,), instance_id=0x210)
        proj.tag("small", "DINT", instance_id=5)
        fill_image(proj, 1)
        ctl = logix.LogixController(proj, pers, None, choices=("rfrag",))
        t = enip.Target(ctl, enip.Policy(large_fo="accept" if S == 4000 else "refuse08"), keep_cip=False)
        cfg = (S, pers, "boolarray")
        with net.World(t, io_budget=10**9):
            d = pycomm3.LogixDriver("10.0.0.1")
            o = call(d.open)
            if o != ("ok", True):
                rep.violation("size/open-failed", f"{cfg}: open() -> {o!r:.120}", {"shard": list(shard), "tag": None, "op": "open", "path": None, "choices": []})
            ends = sorted(set(range(S // 4 - 24, S // 4 + 6)) | set(range(2 * (S // 4) - 6, 2 * (S // 4) + 6)) | {3, 40})
            for end in ends:  # number of words from the start of the array to the end of the request
                for count in (1, 33, 64, 32 * 3):
                    start = end * 32 - count
                    if start < 0 or end > nd:
                        continue
                    text = f"bits[{start}]{{{count}}}" if count > 1 else f"bits[{start}]"
                    for lst in ([text], ["small", text], [text, "small", text]):
                        def scenario(ctx, lst=lst):
                            ctl.ctx = ctx
                            ctl.svc_log.clear()
                            n_ev = len(t.events)
                            return call(d.read, *lst), n_ev

                        def on_exec(ctx, res, lst=lst, text=text, end=end):
                            out, n_ev = res
                            probs = [(tag[4:], detail) for tag, detail in t.events[n_ev:] if tag.startswith("C04")]
                            if out[0] != "ok":
                                probs.append(("exception", f"read raised {out!r:.100}"))
                            else:
                                got = out[1] if isinstance(out[1], list) else [out[1]]
                                for g, x in zip(got, lst):
                                    want = Q.read_expect(proj, x)
                                    if not bool(g):
                                        probs.append(("not-readable", f"{x}: error {getattr(g, 'error', None)!r:.80}"))
                                    elif not Q.same_value(g.value, want[1]):
                                        probs.append(("wrong-value", f"{x}: value differs from controller memory"))
                            rep.case((cfg, tuple(lst), tuple(ctx.choices)), outcome=f"ok:boolarray/{len(lst)}" if not probs else probs[0][0])
                            for clause, detail in probs[:2]:
                                rep.violation(f"read/boolarray/{'single' if len(lst) == 1 else 'multi'}/{clause}", f"{cfg} read {lst!r} ({4 * end} bytes from the start of the array, connection {S}): {detail} (choices {ctx.choices!r})",
                                              {"shard": list(shard), "tag": "bits", "op": "read", "path": "boolarray", "choices": list(ctx.choices)})
                        explore(scenario, 1, on_exec)
                        ctl.ctx = None
            call(d.close)
        rep.sample({"config": cfg, "words_from_start": f"{ends[0]}..{ends[-1]}"})
    elif kind == "first-call":
        # a second driver that takes its tag definitions from the first (plc2._tags = plc1.tags, init_tags=False): on a Micro800 nothing
        # connected happens during open(), so the transfer itself is what opens the connection and learns its size
        import pycomm3

        _, S, pers = shard[:3]
        proj, ctl, t, w, d, r = build_world(S, "SINT", None, 3, pers, choices=(), tier=tier)
        cfg = (S, pers, "first-call")
        if r != ("ok", True):
            rep.violation("size/open-failed", f"{cfg}: open() -> {r!r:.120}", {"shard": list(shard), "tag": None, "op": "open", "path": None, "choices": []})
            w.__exit__()
            return rep
        tags_def = d.tags
        call(d.close)
        for tg in [x for x in proj.user_tags() if x.name != "small"]:
            n, total = tg.elements, tg.nbytes
            text = f"{tg.name}{{{n}}}" if n > 1 else tg.name
            for op in ("read", "write", "read-list", "write-list"):
                d2 = pycomm3.LogixDriver("10.0.0.1", init_tags=False)
                d2._tags = tags_def
                o = call(d2.open)
                pre = proj.snapshot()
                ctl.svc_log.clear()
                n_ev = len(t.events)
                vals = [((i * 5 + 1) % 100) for i in range(n)]
                value = vals if n > 1 else vals[0]
                if op == "read":
                    out = call(d2.read, text)
                elif op == "write":
                    out = call(d2.write, text, value)
                elif op == "read-list":
                    out = call(d2.read, "small", text)
                else:
                    out = call(d2.write, ("small", 3), (text, value))
                probs = transfer_problems(ctl, t, n_ev, tg.full_name, total, "read" if op.startswith("read") else "write")
                res = out[1] if out[0] == "ok" else None
                good = out[0] == "ok" and (all(bool(x) for x in res) if isinstance(res, list) else bool(res))
                if o != ("ok", True):
                    probs.append(("open-failed", f"open() of the second driver -> {o!r:.80}"))
                elif not good:
                    probs.append(("failed", f"{out!r:.120}"))
                proj.restore(pre)
                call(d2.close)
                rep.case((cfg, tg.name, op), outcome=f"ok:first-call/{op}" if not probs else probs[0][0])
                for clause, detail in probs[:2]:
                    rep.violation(f"first-call/{op}/{clause}", f"{cfg}: {op} of {text!r} ({total} data bytes) as the first connected operation of a driver: {detail}",
                                  {"shard": list(shard), "tag": tg.name, "op": op, "path": "first-call", "choices": []})
        rep.sample({"config": cfg, "sizes": len(proj.user_tags()) - 1})
        w.__exit__()
    else:
        _, S, pers = shard[:3]
        busy = len(shard) > 3
        import pycomm3

        proj = projgen.Project("P5m")
        for nbytes in range(1, 200):
            proj.tag(f"m{nbytes}", "SINT", (nbytes,), instance_id=0x200 + nbytes)
        proj.tag("small", "DINT", instance_id=5)
        proj.tag("bigs", "SINT", (3 * shard[1] + 7,), instance_id=6)
        fill_image(proj, 1)
        ctl = logix.LogixController(proj, pers)
        t = enip.Target(ctl, enip.Policy(large_fo="accept" if S == 4000 else "refuse08", fo_refuse_first=2 if busy else 0), keep_cip=False)
        with net.World(t, io_budget=10**9):
            d = pycomm3.LogixDriver("10.0.0.1")
            o = call(d.open)
            if busy:
                o = (o, call(d.close), call(d.open))
                S = 500  # both Forward Opens of the first attempt were refused: the driver has fallen back to the standard size for good
            cfg = (S, pers, "mixed" + ("-after-refused-open" if busy else ""))
            if not t.connections:
                rep.violation("size/open-failed", f"{cfg}: no connection after {o!r:.200}", {"shard": list(shard), "tag": None, "op": "open", "path": None, "choices": []})
            base = 150
            # reply of m<k>{k}: 4 (service hdr) + 2 (type) + k ; member overhead in a multi reply: +2 (offset)
            for target in range(S - 48, S + 9):
                for op in ("read", "write"):
                    # fill with `base`-byte tags, then one tag chosen so that the packed reply/request size hits `target`
                    per = base + 8
                    cnt = max(1, (target - 10) // per)
                    rest = target - 10 - cnt * per - 8
                    names = [f"m{base}{{{base}}}"] * cnt
                    if 1 <= rest < 200:
                        names.append(f"m{rest}{{{rest}}}")
                    names.append("small")
                    ctl.svc_log.clear()
                    n_ev = len(t.events)
                    if op == "read":
                        out = call(d.read, *names)
                    else:
                        pre = proj.snapshot()
                        out = call(d.write, *[(nm, [1] * int(nm.split("{")[1][:-1])) if "{" in nm else (nm, 9) for nm in names])
                        proj.restore(pre)
                    probs = [(tag[4:], detail) for tag, detail in t.events[n_ev:] if tag.startswith("C04")]
                    if out[0] != "ok":
                        probs.append(("exception", f"{op} raised {out!r:.100}"))
                    else:
                        bad = [i for i, g in enumerate(out[1]) if not bool(g)]
                        if bad:
                            probs.append(("request-failed", f"{len(bad)} of {len(names)} requests failed, first #{bad[0]} {names[bad[0]]!r}: {out[1][bad[0]].error!r:.80}"))
                        elif op == "read":
                            for nm, g in zip(names, out[1]):
                                if not Q.same_value(g.value, Q.read_expect(proj, nm)[1]):
                                    probs.append(("wrong-value", f"{nm!r} differs from controller memory"))
                                    break
                    rep.case((cfg, op, target), outcome="ok" if not probs else probs[0][0])
                    for clause, detail in probs[:3]:
                        rep.violation(f"{op}/mixed-list/{clause}", f"{cfg}: {op} of {len(names)} requests packing to about {target} bytes: {detail}",
                                      {"shard": list(shard), "tag": None, "op": op, "path": target, "choices": []})
            # lists spanning several multi-service packets: k equal medium requests for every k up to ~4 packets,
            # and a filled first packet followed by a second one that fills up
            for base2 in (20, 80, 150, 199):
                per_packet = max(1, S // (base2 + 12))
                for k in list(range(1, min(4 * per_packet + 3, 120))):
                    if S == 4000 and k % 3 and k < 4 * per_packet - 6:
                        continue
                    names = [f"m{base2}{{{base2}}}"] * k + ["small"]
                    for op in ("read", "write"):
                        n_ev = len(t.events)
                        if op == "read":
                            out = call(d.read, *names)
                        else:
                            pre = proj.snapshot()
                            out = call(d.write, *[(nm, [1] * base2) if "{" in nm else (nm, 9) for nm in names])
                            proj.restore(pre)
                        probs = [(tag[4:], detail) for tag, detail in t.events[n_ev:] if tag.startswith("C04")]
                        if out[0] != "ok":
                            probs.append(("exception", f"{op} raised {out!r:.100}"))
                        elif not all(bool(g) for g in out[1]):
                            bad = [i for i, g in enumerate(out[1]) if not bool(g)]
                            probs.append(("request-failed", f"{len(bad)} of {len(names)} requests failed, first #{bad[0]}: {out[1][bad[0]].error!r:.80}"))
                        rep.case((cfg, op, "many", base2, k), outcome=f"ok:{op}/many" if not probs else probs[0][0])
                        for clause, detail in probs[:2]:
                            rep.violation(f"{op}/multi-packet-list/{clause}", f"{cfg}: {op} of {k} x {base2}-byte requests + 1: {detail}",
                                          {"shard": list(shard), "tag": None, "op": op, "path": ["many", base2, k], "choices": []})
            # a transfer that needs fragments at every position inside such lists: what is packed before and behind it stays within the size
            nbig = proj.find("bigs").elements
            for base2 in (80, 199):
                per_packet = max(1, S // (base2 + 12))
                for k in sorted({per_packet - 1, per_packet, per_packet + 1, 2 * per_packet - 1, 2 * per_packet + 1} - {0}):
                    for i in range(k + 1):
                        if S == 4000 and i % 3 and i not in (k - 1, k):
                            continue
                        names = [f"m{base2}{{{base2}}}"] * i + [f"bigs{{{nbig}}}"] + [f"m{base2}{{{base2}}}"] * (k - i) + ["small"]
                        for op in ("read", "write"):
                            n_ev = len(t.events)
                            if op == "read":
                                out = call(d.read, *names)
                            else:
                                pre = proj.snapshot()
                                out = call(d.write, *[(nm, [1] * int(nm.split("{")[1][:-1])) if "{" in nm else (nm, 9) for nm in names])
                                proj.restore(pre)
                            probs = [(tag[4:], detail) for tag, detail in t.events[n_ev:] if tag.startswith("C04")]
                            if out[0] != "ok":
                                probs.append(("exception", f"{op} raised {out!r:.100}"))
                            elif not all(bool(g) for g in out[1]):
                                bad = [j for j, g in enumerate(out[1]) if not bool(g)]
                                probs.append(("request-failed", f"{len(bad)} of {len(names)} requests failed, first #{bad[0]} {names[bad[0]]!r}: {out[1][bad[0]].error!r:.80}"))
                            rep.case((cfg, op, "around-fragmented", base2, k, i), outcome=f"ok:{op}/around-fragmented" if not probs else probs[0][0])
                            for clause, detail in probs[:2]:
                                rep.violation(f"{op}/list-around-fragmented/{clause}", f"{cfg}: {op} of {i} x {base2}-byte requests, one of {nbig} bytes, {k - i} x {base2}-byte requests + 1: {detail}",
                                              {"shard": list(shard), "tag": None, "op": op, "path": ["around", base2, k, i], "choices": []})
            call(d.close)
        rep.sample({"config": (S, pers, "mixed"), "targets": f"{S - 48}..{S + 8}", "multi_packet_lists": "k x {20,80,150,199}-byte requests, k up to 4 packets"})
    return rep


def replay(r):
    sh = tuple(r["shard"])
    rep = run_shard(sh, "thorough" if r.get("tier") == "thorough" else "quick", 0)
    hit = False
    for s, vs in rep.violations.items():
        for v in vs:
            if r.get("tag") is None or (r["tag"] and f"'{r['tag']}" in v.msg) or True:
                print("  violates:", s, "::", v.msg[:300])
                hit = True
                break
    return not hit

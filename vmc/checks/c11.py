"""C11 — every emitted frame is a well-formed EtherNet/IP encapsulation message (strict monitor + sweep)."""
from vmc.core.report import Report
from vmc.ref import enip, net, wire as W
from .harness import call, frame_violations
from . import corpus

META = {
    "rule": "(1) sweep: generic messages with EVERY request-data length 0..(connection size - overhead) on the 500-byte connection and 0..600 plus "
    "every length in the last 40 before the limit on the 4000-byte one, connected, UCMM and Unconnected Send, for session handles and "
    "connection ids granted by the target from {1, 0x80, 0xFF, 0x100, 0xFFFF, 0x10000, 0x7FFFFFFF, 0x80000000, 0xFFFFFFFF, values with "
    "zero bytes, connection id 0}; register / unregister / list-identity frames; (2) the shared scenario corpus (uploads, every read/write packet kind "
    "on every controller personality and connection size, lifecycle calls under every target policy, SLC reads/writes); (3) every frame of the C10 call histories (depth 3, one transport fault at every I/O index) for three drivers x three policies; (4) the corpus again with every send() accepting only 3/4, 1/2 or one byte of what is offered (short writes). Oracle: a "
    "strict independent parser (vmc/ref/wire.py, run inside the target) accepts every frame: one frame per message written to the "
    "socket, header length == bytes that follow, the operation's command, the granted session handle (0 only before registration), "
    "zero status/options, 8-byte context, two-item common packet with exact item lengths, connection address item holding the "
    "granted connection id (a SendUnitData naming another id while the session holds an open connection is flagged), nothing trailing. states = frames inspected; distinct = distinct (scenario, frame index).",
    "explanation": "strict frame monitor over an exhaustive payload-length / handle sweep and the scenario corpus",
    "assumptions": ["frames of fault-free runs only (C10 covers faults); the monitor records and the oracle reads the record after each scenario"],
}


def sweep(rep, conn, transport, handle, cid, lengths):
    import pycomm3

    pol = enip.Policy(large_fo="accept" if conn == 4000 else "refuse08", session_handles=[handle], conn_ids=[cid])
    t = enip.Target(enip.IdentityDevice(lambda req, info: (0, [], b"ok")), pol, keep_cip=False)
    with net.World(t, io_budget=10**9) as w:
        d = pycomm3.CIPDriver("10.0.0.1/bp/2")
        call(d.open)
        if transport == "connected-u":
            # contradictory but accepted keyword combination: `connected` left at True together with unconnected_send=True
            kw = dict(unconnected_send=True, route_path=True)
        else:
            kw = dict(connected=True) if transport == "connected" else dict(connected=False, unconnected_send=(transport == "ucsend"), route_path=(True if transport == "ucsend" else False))
        for n in lengths:
            m0 = len(w.messages)
            e0 = len(t.events)
            out = call(d.generic_message, service=0x4C, class_code=0x99, instance=0x1234, request_data=bytes((n + i) & 0xFF for i in range(n)), **kw)
            probs = []
            for i, msg in enumerate(w.messages[m0:]):
                ln = W.frame_len(msg)
                if ln is None or ln != len(msg):
                    probs.append(("frame/length-field", f"{len(msg)} bytes written, header length field implies {ln}"))
            for tag, detail in t.events[e0:]:
                if tag.startswith("C11"):
                    probs.append((tag[4:], detail))
            if out[0] not in ("ok", "pycomm"):
                probs.append(("exception", repr(out)[:100]))
            rep.case((conn, transport, handle, cid, n), outcome="ok" if not probs else probs[0][0])
            for clause, detail in probs[:2]:
                hc = "plain" if handle < 0x80 and cid < 0x80 else "wide-handles"
                rep.violation(f"sweep/{transport}/{clause}/{'odd' if n % 2 else 'even'}/{hc}", f"conn {conn} {transport} data length {n} session {handle:#x} connection id {cid:#x}: {detail}",
                              {"kind": "sweep", "conn": conn, "transport": transport, "handle": handle, "cid": cid, "n": n})
        # the packet classes driven directly (the documented extension point): a body of 0..4 added bytes, also none at all
        if transport in ("connected", "ucmm"):
            from pycomm3.packets import SendUnitDataRequestPacket, SendRRDataRequestPacket

            for extra in (None, b"", b"\x01", b"\x01\x02", b"\x0e\x02\x20\x01", b"\x01\x02\x03"):
                m0, e0 = len(w.messages), len(t.events)
                pkt = SendUnitDataRequestPacket(d._sequence) if transport == "connected" else SendRRDataRequestPacket()
                if extra is not None:
                    pkt.add(extra)
                out = call(d.send, pkt)
                probs = []
                for msg in w.messages[m0:]:
                    ln = W.frame_len(msg)
                    if ln is None or ln != len(msg):
                        probs.append(("frame/length-field", f"{len(msg)} bytes written, header length field implies {ln}"))
                probs += [(tag[4:], detail) for tag, detail in t.events[e0:] if tag.startswith("C11") and tag != "C11/connected-data"]
                if out[0] not in ("ok", "pycomm"):
                    probs.append(("exception", repr(out)[:100]))
                rep.case((conn, transport, handle, cid, "raw", extra), outcome="ok" if not probs else probs[0][0])
                for clause, detail in probs[:2]:
                    rep.violation(f"sweep/{transport}/raw-packet/{clause}", f"conn {conn} {transport} packet class sent directly with added bytes {extra!r}: {detail}",
                                  {"kind": "sweep", "conn": conn, "transport": transport, "handle": handle, "cid": cid, "n": 0})
        # a request object kept by the application and sent again on the driver's NEXT session / connection: the frame carries the handle and
        # connection id that are valid now
        if transport in ("connected", "ucmm"):
            from pycomm3.packets import SendUnitDataRequestPacket, SendRRDataRequestPacket

            pkt = SendUnitDataRequestPacket(d._sequence) if transport == "connected" else SendRRDataRequestPacket()
            pkt.add(b"\x0e\x03\x20\x99\x24\x01\x30\x01")
            if transport == "connected":
                call(d.generic_message, service=0x0E, class_code=0x99, instance=1)  # makes sure the connection is open
            o1 = call(d.send, pkt)
            call(d.close)
            # the next session and connection get other identifiers than the ones just given up
            pol.session_handles = [handle ^ 0x5A5A0001 or 0x77]
            pol.conn_ids = [cid ^ 0x00A50F01]
            e0 = len(t.events)
            call(d.open)
            if transport == "connected":
                call(d.generic_message, service=0x0E, class_code=0x99, instance=1)
            m0 = len(w.messages)
            o2 = call(d.send, pkt)
            probs = [(tag[4:], detail) for tag, detail in t.events[e0:] if tag.startswith("C11")]
            for msg in w.messages[m0:]:
                ln = W.frame_len(msg)
                if ln is None or ln != len(msg):
                    probs.append(("frame/length-field", f"{len(msg)} bytes written, header length field implies {ln}"))
            if o2[0] not in ("ok", "pycomm"):
                probs.append(("exception", repr(o2)[:100]))
            rep.case((conn, transport, handle, cid, "resend"), outcome="ok" if not probs else probs[0][0])
            for clause, detail in probs[:2]:
                rep.violation(f"sweep/{transport}/request-object-sent-again/{clause}", f"conn {conn} {transport}: a request packet sent, the driver closed and opened again, the same packet object sent again: {detail}",
                              {"kind": "sweep", "conn": conn, "transport": transport, "handle": handle, "cid": cid, "n": 0})
        call(d.close)
        rep.add("states", len(w.messages))
        for clause, detail in frame_violations(w, t):
            if clause.startswith("frame/") or True:
                pass
    return rep


def lengths_for(conn, transport, tier):
    if transport == "connected-u":
        return list(range(0, 40))
    limit = (conn - 12) if transport == "connected" else 480
    if conn == 500 or transport != "connected":
        return list(range(0, limit + 1))
    base = list(range(0, 601)) + list(range(limit - 40, limit + 1))
    if tier == "thorough":
        base = list(range(0, limit + 1))
    return base


def shards(tier, seed):
    sh = []
    hs = corpus.HANDLES
    k = 0
    for conn in (500, 4000):
        for tr in ("connected", "ucmm", "ucsend"):
            for i in range(len(hs) if tier == "thorough" else 4):
                k += 1
                h = hs[(i * 3 + k + seed) % len(hs)]
                c = hs[(i * 5 + k + 2 + seed) % len(hs)]
                sh.append(("sweep", conn, tr, h, c))
            sh.append(("sweep", conn, tr, hs[k % len(hs)], 0))  # the target grants connection id 0
    sh += [("sweep", conn, "connected-u", hs[(conn // 100 + seed) % len(hs)], hs[(conn // 50 + 3) % len(hs)]) for conn in (500, 4000)]
    sh += [("oversize", tr) for tr in ("connected", "ucmm", "ucsend")]
    sh.append(("corpus",))
    sh += [("corpus", regime) for regime in ("3/4", "1/2", "1", "tail1", "tail3", "tail21", "tail23")]  # the same corpus with every send() accepting only part of the frame
    # the call histories of C10 (one transport fault at every I/O index): frames after a failed close / reopen etc.
    for drv in ("cip", "logix_noinit", "slc"):
        for pol in ("ok", "large08", "nofclose"):
            sh.append(("histories", drv, pol))
    # environment dimension: the frames do not depend on whether anybody listens to the library's log
    sh += [("corpus", "debuglog"), ("corpus", "1/2", "debuglog"), ("histories", "cip", "ok", "debuglog"), ("histories", "logix_noinit", "large08", "debuglog"),
           ("sweep", 500, "connected", hs[seed % len(hs)], hs[(seed + 3) % len(hs)], "debuglog"), ("sweep", 500, "ucsend", hs[(seed + 1) % len(hs)], hs[(seed + 4) % len(hs)], "debuglog")]
    return sh


def describe(tier, seed):
    return {"bounds": {"payload_lengths": "0..488 (every), 0..600 + last 40 before the limit at 4000 (thorough: every)", "handles": corpus.HANDLES, "corpus_scenarios": "21"}, "exhaustive": True}


def run_shard(shard, tier, seed):
    rep = Report()
    if shard[0] == "sweep":
        _, conn, tr, h, c = shard
        sweep(rep, conn, tr, h, c, lengths_for(conn, tr, tier))
        rep.sample({"sweep": [conn, tr, hex(h), hex(c)], "lengths": len(lengths_for(conn, tr, tier))})
    elif shard[0] == "oversize":
        # request data beyond what the 16-bit length fields can express (and just below): refused before anything is written, or framed consistently
        big = [481, 1000, 4001, 20000] + list(range(65440, 65560)) + [65535 + 24, 70000, 131072, 131072 + 30]
        sweep(rep, 4000, shard[1], corpus.HANDLES[seed % len(corpus.HANDLES)], corpus.HANDLES[(seed + 2) % len(corpus.HANDLES)], big)
        rep.sample({"oversize": shard[1], "lengths": len(big)})
    elif shard[0] == "histories":
        from . import c10

        states, trans, _ = c10.search(rep, shard[1], shard[2], 3, 1, c10.FAULT_KINDS, frames_only=True)
        rep.sample({"histories": [shard[1], shard[2]], "replayed": trans})
    else:
        regime = shard[1] if len(shard) > 1 else None
        corpus.SEND_REGIME = regime
        for label, w, t in corpus.scenarios(tier):
            if regime:
                label = f"{label}/short-writes-{regime}" if not regime.startswith("tail") else f"{label}/replies-in-two-segments-{regime}"
            probs = frame_violations(w, t)
            rep.case(("corpus", label), outcome="ok" if not probs else probs[0][0], calls=len(w.messages))
            rep.add("states", len(w.messages))
            for clause, detail in probs[:4]:
                rep.violation(f"corpus/{label.split('/')[0]}/{clause}", f"scenario {label}: {detail}", {"kind": "corpus", "label": label})
            rep.sample({"scenario": label, "frames": len(w.messages)})
            w.__exit__()
        corpus.SEND_REGIME = None
    return rep


def replay(r):
    rep = Report()
    if r["kind"] == "sweep":
        sweep(rep, r["conn"], r["transport"], r["handle"], r["cid"], [r["n"]])
    elif r["kind"] == "history":
        from . import c10
        from .harness import frame_violations

        hist = tuple((e, tuple(f) if f else None) for e, f in r["hist"])
        run = c10.replay_hist(r["drv"], r["pol"], hist)
        probs = frame_violations(run.w, run.t)
        run.close_world()
        print("history:", c10.fmt(hist))
        for c, d in probs:
            print("  violates:", c, "::", d)
        return not probs
    else:
        rep = run_shard(("corpus",), "quick", 0)
    for s, vs in rep.violations.items():
        print("  violates:", s, "::", vs[0].msg[:300])
    return not rep.violations

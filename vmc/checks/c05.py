"""C05 — uploaded tag list and type definitions mirror the controller (E1 over pagination / template fragmentation)."""
import json

from vmc.core.explore import explore, check_deterministic, Ctx
from vmc.core.report import Report
from vmc.ref import enip, net, logix, projgen
from vmc.ref.projects import TypeDef, EXTERNAL_ACCESS, type_name, hidden_symbol_name
from .harness import call

META = {
    "rule": "projects {P0 = the repository's demo project rebuilt from tests/pycomm3.L5X, P1 atoms, P2 structures, P3 scopes/system symbols, P4 scale} x personalities {v17, v18, v20, v21, v32, m800} (both sides of every firmware boundary) x scopes "
    "{controller only, '*', one program}; the controller's choices - entries per symbol page (every break point) and bytes per "
    "template fragment (a cut at every byte class of the definition) - are explored with iterative deviation bounding "
    "(bound 1 quick, 2 thorough), plus the forced modes one-entry-per-page and 1-/2-/3-byte template fragments. An execution "
    "= LogixDriver.open() (+ get_tag_list) against the reference controller. Oracle: tags / data_types / info['programs'|"
    "'tasks'] == reference projection of the project; json.dumps(tags_json) works; the canonical result is identical over all "
    "explored choices. Non-trivial = at least one deviation or a forced mode; distinct = distinct (configuration, choice vector).",
    "explanation": "stateless deviation-bounded search over the controller's pagination and fragmentation choices",
    "assumptions": [
        "empty symbol pages / zero-length fragments with 'more' status and entries split across pages are not sent by any controller and not explored",
        "info['modules'] is not constrained by the property statement and not compared",
        "entries of internal_tags for hidden members are not compared (the property only fixes the visible ones)",
        "external access is 'Unknown' below firmware 18 (the attribute does not exist there)",
    ],
}
PROJECTS = ("P1", "P2", "P3", "P4")
PERS = ("v17", "v18", "v20", "v21", "v32", "m800")
SCOPES = ("ctl", "all", "prog")


def struct_def(td):
    d = {
        "name": td.name,
        "attributes": [m.name for m in td.visible],
        "template": {"object_definition_size": td.definition_words(), "structure_size": td.size, "member_count": len(td.members), "structure_handle": td.handle},
        "internal_tags": {},
    }
    for m in td.visible:
        e = {"offset": m.offset, "tag_type": "struct" if isinstance(m.typ, TypeDef) else "atomic", "data_type_name": type_name(m.typ)}
        if m.is_bit:
            e["bit"] = m.bit
        else:
            e["array"] = m.dim
        e["data_type"] = struct_def(m.typ) if isinstance(m.typ, TypeDef) else m.typ
        d["internal_tags"][m.name] = e
    if td.string_capacity is not None:
        d["string"] = td.string_capacity
        d["string_class"] = [td.size - 4, td.string_capacity]  # what the type used for reading and writing the tag holds: data area and capacity
    return d


def expected(project, pers, scope, prog=None):
    """Reference projection: what tags / data_types / info must hold."""
    p = logix.PERSONALITIES[pers]
    tags = {}
    types = {}

    def note_types(td):
        types[td.name] = struct_def(td)
        for m in td.members:
            if isinstance(m.typ, TypeDef):
                note_types(m.typ)

    def add(t):
        if not t.visible or hidden_symbol_name(t.name, t.kind):
            return
        e = {
            "tag_name": t.full_name, "dim": len(t.dims), "dimensions": (list(t.dims) + [0, 0, 0])[:3], "alias": t.alias, "instance_id": t.instance_id,
            "external_access": EXTERNAL_ACCESS[t.access] if p.external_access_attr else "Unknown",
            "tag_type": "struct" if isinstance(t.typ, TypeDef) else "atomic", "data_type_name": type_name(t.typ),
        }
        if isinstance(t.typ, TypeDef):
            e["template_instance_id"] = t.typ.tid
            e["data_type"] = struct_def(t.typ)
            note_types(t.typ)
        else:
            e["data_type"] = t.typ
            if t.typ == "BOOL":
                e["bit_position"] = t.bool_bit
        tags[t.full_name] = e

    if scope in ("ctl", "all"):
        for t in project.symbols:
            if t.kind in ("tag", "module"):
                add(t)
    if scope == "all":
        for pn, lst in project.programs.items():
            for t in lst:
                if t.kind == "tag":
                    add(t)
    if scope == "prog":
        for t in project.programs[prog]:
            if t.kind == "tag":
                add(t)
    programs = {}
    for t in project.symbols:
        if t.kind == "program":
            pn = t.name[len("Program:") :]
            programs[pn] = {"instance_id": t.instance_id, "routines": []}
    if scope in ("all", "prog"):
        for pn, lst in project.programs.items():
            if pn in programs and (scope == "all" or pn == prog):
                programs[pn]["routines"] = [t.name[len("Routine:") :] for t in sorted(lst, key=lambda t: t.instance_id) if t.kind == "routine"]
    tasks = {t.name[len("Task:") :]: {"instance_id": t.instance_id} for t in project.symbols if t.kind == "task"}
    return {"tags": tags, "types": types, "programs": programs, "tasks": tasks}


def canon_struct(dt, visible_only=True):
    if not isinstance(dt, dict):
        return dt
    out = {"name": dt.get("name"), "attributes": list(dt.get("attributes", [])), "template": dict(dt.get("template", {})), "internal_tags": {}}
    for m in out["attributes"]:
        it = dt.get("internal_tags", {}).get(m)
        if it is None:
            out["internal_tags"][m] = None
            continue
        e = {k: it.get(k) for k in ("offset", "tag_type", "data_type_name") }
        if "bit" in it:
            e["bit"] = it["bit"]
        if "array" in it:
            e["array"] = it["array"]
        e["data_type"] = canon_struct(it.get("data_type"))
        out["internal_tags"][m] = e
    if "string" in dt:
        out["string"] = dt["string"]
        tc = dt.get("type_class")
        out["string_class"] = [getattr(tc, "size", None), getattr(tc, "max_len", None)]
    return out


def canon_result(d):
    """Canonical, comparable projection of what the driver holds after the upload."""
    tags = {}
    for name, t in d.tags.items():
        e = {k: t.get(k) for k in ("tag_name", "dim", "dimensions", "alias", "instance_id", "external_access", "tag_type", "data_type_name")}
        if t.get("tag_type") == "struct":
            e["template_instance_id"] = t.get("template_instance_id")
            e["data_type"] = canon_struct(t.get("data_type"))
        else:
            e["data_type"] = t.get("data_type")
            if "bit_position" in t:
                e["bit_position"] = t["bit_position"]
        tags[name] = e
    types = {n: canon_struct(dt) for n, dt in d.data_types.items()}
    return {"tags": tags, "types": types, "programs": d.info.get("programs"), "tasks": d.info.get("tasks")}


def diff(a, b, path=""):
    """First few differences between two nested structures."""
    out = []
    if isinstance(a, dict) and isinstance(b, dict):
        for k in sorted(set(a) | set(b), key=str):
            if k not in a:
                out.append(f"{path}/{k}: missing in result")
            elif k not in b:
                out.append(f"{path}/{k}: not in the controller (invented)")
            else:
                out += diff(a[k], b[k], f"{path}/{k}")
            if len(out) > 6:
                break
    elif a != b:
        out.append(f"{path}: got {a!r:.80} want {b!r:.80}")
    return out


def classify(d):
    """Structural class of a difference for the signature."""
    parts = d.split(":")[0].strip("/").split("/")
    if not parts or parts[0] == "":
        return "result"
    top = parts[0]
    if top in ("programs", "tasks", "tags_json"):
        return top
    if top == "types":
        return "types/" + (parts[2] if len(parts) > 2 else "set")
    if len(parts) == 2:
        return "tags/set"
    field = parts[2]
    if field == "data_type" and len(parts) > 3:
        field = "data_type/" + parts[3]
    return "tags/" + field


def scenario_for(pname, pers, scope, force=None, image=0):
    import pycomm3

    def scenario(ctx):
        proj = projgen.build(pname, image, **({"reduced": True} if pname in ("P1", "P2") else {}))
        ctl = logix.LogixController(proj, pers, ctx, choices=("page", "tfrag"))
        if force:
            ctl.force_page, ctl.force_tfrag = force
        t = enip.Target(ctl, keep_cip=False)
        prog = None
        with net.World(t, ctx, io_budget=400000) as w:
            d = pycomm3.LogixDriver("10.0.0.1", init_program_tags=(scope != "ctl"))
            r = call(d.open)
            if r == ("ok", True) and scope == "prog":
                prog = sorted(proj.programs)[0] if proj.programs else None
                if prog is None:
                    return ("skip", None, None)
                r2 = call(d.get_tag_list, prog)
                if r2[0] != "ok":
                    r = r2
            if r[0] != "ok" or r[1] is False:
                return ("open-failed:" + str(r[:2]), None, None)
            before = deep_dump(d.tags)
            try:
                json.dumps(d.tags_json)
                json.dumps(d.tags_json)
                js = None
            except Exception as e:  # noqa
                js = f"{type(e).__name__}: {e}"
            after = deep_dump(d.tags)
            if js is None and after != before:
                # the JSON view is a view: producing it must leave the uploaded definitions (incl. their type classes) alone
                k = next((k for k in before if after.get(k) != before[k]), "?")
                js = f"reading tags_json changed the uploaded definition of {k!r}"
            got = canon_result(d)
            call(d.close)
        want = expected(proj, pers, "prog" if scope == "prog" else scope, prog)
        if scope == "prog":
            # a second, program-only upload: definitions and program info gathered by the first upload remain
            # (not constrained by the property); only this program's tags and the types they need are compared
            got["programs"] = want["programs"] = None
            got["types"] = {k: v for k, v in got["types"].items() if k in want["types"]}
        df = diff(got, want)
        if js:
            df.append("/tags_json: " + js)
        return ("ok" if not df else "differs", tuple(df[:6]), json.dumps(got, sort_keys=True, default=str) if not df else None)
    return scenario


PARTS = 16


def deep_dump(tags):
    """Everything in the uploaded definitions, type classes by name, cycles cut: tag name -> string."""
    def walk(o, depth=0):
        if depth > 12:
            return "..."
        if isinstance(o, dict):
            return "{" + ",".join(f"{k}:{walk(v, depth + 1)}" for k, v in sorted(o.items(), key=lambda kv: str(kv[0]))) + "}"
        if isinstance(o, (list, tuple)):
            return "[" + ",".join(walk(x, depth + 1) for x in o) + "]"
        if isinstance(o, type):
            return f"<{o.__name__}:{getattr(o, 'size', '')}>"
        return repr(o)
    return {k: walk(v) for k, v in tags.items()}


def shards(tier, seed):
    sh = []
    for pn in PROJECTS:
        for pers in PERS:
            for scope in SCOPES:
                if scope == "prog" and pn in ("P1", "P2"):
                    continue
                sh.append(("explore", pn, pers, scope))
                sh.append(("forced", pn, pers, scope))
    # P0: the demo project rebuilt from tests/pycomm3.L5X (a v20 controller; also served as v32)
    for pers in ("v20", "v32"):
        for scope in SCOPES:
            if tier == "thorough" and pers == "v20":
                # bound 2 on the big project served as what it is (a v20 controller): one exploration split over PARTS workers by the position of the
                # first deviation; served as v32 it is explored with bound 1 (the pagination code is the same, this halves a three-hour tier)
                sh += [("explore", "P0", pers, scope, k) for k in range(PARTS)]
            else:
                sh.append(("explore", "P0", pers, scope))
            sh.append(("forced", "P0", pers, scope))
    sh.append(("fixture", "P0", "v20", "all"))
    sh += [("explore", "P3", "v20", "all", "debuglog"), ("forced", "P2", "v32", "ctl", "debuglog"), ("explore", "P1", "m800", "ctl", "debuglog")]
    for pers in ("v20", "v32"):
        sh.append(("twins", "P2", pers, "all"))
        sh.append(("online-edits", "P3", pers, "all"))
    return sh


def describe(tier, seed):
    return {"bounds": {"deviation_bound": ("2 (P1-P3, P0 as v20); 1 (P4, P0 as v32)" if tier == "thorough" else 1), "projects": PROJECTS, "personalities": PERS, "scopes": SCOPES,
                       "forced_modes": ["1 entry/page", "1-byte", "2-byte", "3-byte", "7-byte template fragments"]}, "exhaustive": True}


def report_exec(rep, cfg, ctx, out, force=None):
    outcome, df, canon = out
    nontrivial = bool(force) or ctx.deviations > 0
    kinds_ = "+".join(sorted({p[0].split("@")[0] for p, c in zip(ctx.points, ctx.choices) if c != p[2]})) or ("forced" if force else "default")
    rep.case((cfg, tuple(ctx.choices), force), nontrivial=nontrivial, outcome=(outcome + ":" + kinds_) if outcome == "ok" else outcome)
    if outcome == "skip":
        return
    if outcome != "ok":
        devs = [p[0].split("@")[0] for p, c in zip(ctx.points, ctx.choices) if c != p[2]]
        how = "forced" if force else ("+".join(sorted(set(devs))) or "default")
        if df:
            for d in df[:3]:
                rep.violation(f"upload/{classify(d)}/{how}", f"{cfg}: {d} (choices {ctx.choices!r:.60}, force={force})",
                              {"cfg": list(cfg), "choices": list(ctx.choices), "force": list(force) if force else None})
        else:
            rep.violation(f"upload/{outcome.split(':')[0]}/{how}", f"{cfg}: upload ended with {outcome} (choices {ctx.choices!r:.60}, force={force})",
                          {"cfg": list(cfg), "choices": list(ctx.choices), "force": list(force) if force else None})


def fixture_shard(rep):
    """P0 uploaded through the library must reproduce the recorded upload (tests/offline/all_tags.json) field for field,
    for every tag whose type has not changed since the recording; and the L5X binding of the reference model must hold."""
    import pycomm3
    from vmc.ref import p0

    proj = p0.load()
    ntags, nleaf, mism = p0.conformance(proj)
    rep.add("p0_tags", ntags)
    rep.add("p0_leaf_values_matching_l5x", nleaf - len(mism))
    if mism:
        # the oracle itself disagrees with Rockwell's interpretation: that is a broken harness, not a verdict
        raise AssertionError("reference model does not reproduce the L5X: " + "; ".join(mism[:3]))
    ctl = logix.LogixController(proj, "v20")
    t = enip.Target(ctl, keep_cip=False)
    with net.World(t, io_budget=10**7):
        d = pycomm3.LogixDriver("10.0.0.1")
        o = call(d.open)
        js = json.loads(json.dumps(d.tags_json)) if o == ("ok", True) else {}
    fx = proj.fixture
    same_version = {}

    def comparable(name):
        td = next((x for x in proj.types.values() if x.name == name), None)
        rec = proj.fixture_types.get(name)
        if td is None or rec is None or rec[2] is None:
            return False
        return {k for k in rec[2].get("internal_tags", {}) if not k.startswith("__")} == {m.name for m in td.members} and all(
            comparable(v["data_type"]["name"]) for v in rec[2]["internal_tags"].values() if isinstance(v.get("data_type"), dict))

    def strip(x):
        if isinstance(x, dict) and "attributes" in x and isinstance(x["attributes"], list):
            # the recording predates the rule that hides CTL / Control of predefined types
            x = dict(x, attributes=[a for a in x["attributes"] if a not in ("CTL", "Control")])
        if isinstance(x, dict):
            return {k: strip(v) for k, v in x.items() if k not in ("symbol_address", "symbol_object_address", "software_control", "object_definition_size") and not str(k).startswith("__")}
        return x
    n = 0
    for name, rec in fx.items():
        got = js.get(name)
        if got is None:
            continue  # module tags etc. are not part of the L5X export
        if rec.get("tag_type") == "struct" and not comparable(rec["data_type_name"]):
            continue
        n += 1
        df = diff(strip(got), strip(rec))
        rep.case(("fixture", name), outcome="ok" if not df else "differs")
        for dd in df[:2]:
            rep.violation(f"fixture/{classify('/tags/x' + dd.split(':')[0])}", f"P0 {name}: uploaded definition differs from the recorded upload: {dd}", {"cfg": ["P0", "v20", "all"], "choices": [], "force": None})
    rep.sample({"fixture_tags_compared": n, "p0_tags": ntags, "l5x_leaf_values_checked": nleaf})


def twins_shard(rep, pers):
    """Uploads from different controllers (and repeated uploads) in one process: each must mirror *its* controller.
    The second controller re-uses the template ids and instance ids of the first for different types and tags."""
    import pycomm3

    def variant(k):
        proj = projgen.build("P2", 0, reduced=True)
        if k:
            tds = sorted(proj.types.values(), key=lambda t: t.tid)
            ids = [(t.tid, t.handle) for t in tds if not t.predefined]
            user = [t for t in tds if not t.predefined]
            for t, (tid, h) in zip(user, ids[1:] + ids[:1]):
                t.tid, t.handle = tid, h
            proj.types = {t.tid: t for t in tds}
            tags = [t for t in proj.symbols if t.kind == "tag"]
            iids = [t.instance_id for t in tags]
            for t, i in zip(tags, iids[2:] + iids[:2]):
                t.instance_id = i
        return proj
    seq = [0, 1, 0, 1]
    for n, k in enumerate(seq):
        proj = variant(k)
        ctl = logix.LogixController(proj, pers)
        t = enip.Target(ctl, keep_cip=False)
        with net.World(t, io_budget=400000):
            d = pycomm3.LogixDriver(f"10.0.0.{k + 1}")
            o = call(d.open)
            got = canon_result(d) if o == ("ok", True) else None
            if got is not None and n == len(seq) - 1:
                o2 = call(d.get_tag_list, "*")  # a repeated upload on the same driver
                got = canon_result(d)
            call(d.close)
        want = expected(proj, pers, "all")
        df = ["open failed: %r" % (o,)] if got is None else diff(got, want)
        rep.case(("twins", pers, n), outcome="ok" if not df else "differs")
        for dd in df[:3]:
            rep.violation(f"upload/second-controller/{classify(dd) if got is not None else 'open'}", f"upload #{n + 1} in this process (controller variant {k}, {pers}): {dd}", {"cfg": ["P2", pers, "all"], "choices": [], "force": None})
    rep.sample({"uploads_in_one_process": len(seq), "personality": pers})


EDITS = ("none", "program-deleted", "program-renamed", "program-added", "no-programs", "tags-changed", "udt-redefined", "task-deleted")


def edited_p3(edit):
    """P3 after an on-line edit of the project."""
    from vmc.ref.projects import TagDef
    from vmc.ref.projgen import layout

    proj = projgen.build("P3", 0)

    def drop_program(name):
        proj.symbols[:] = [s for s in proj.symbols if s.name != "Program:" + name]
        proj.programs.pop(name, None)

    if edit == "program-deleted":
        drop_program("Second_Prog")
    elif edit == "program-renamed":
        for s in proj.symbols:
            if s.name == "Program:MainProgram":
                s.name = "Program:Main2"
        lst = proj.programs.pop("MainProgram")
        for s in lst:
            s.scope = "Main2"
        proj.programs["Main2"] = lst
    elif edit == "program-added":
        proj.add(TagDef("Program:Extra", None, (), 450, kind="program", symbol_type=0x1068))
        proj.tag("x_real", "REAL", scope="Extra", instance_id=1)
        proj.add(TagDef("Routine:Go", None, (), 2, scope="Extra", kind="routine", symbol_type=0x106D))
    elif edit == "no-programs":
        for n in list(proj.programs):
            drop_program(n)
    elif edit == "tags-changed":
        proj.symbols[:] = [s for s in proj.symbols if s.name not in ("ctl_ary", "alias_tag")]
        proj.tag("ctl_new", "REAL", (3,), instance_id=460)
        old = next(s for s in proj.symbols if s.name == "ctl_dint")
        proj.symbols[proj.symbols.index(old)] = TagDef("ctl_dint", "INT", (2,), old.instance_id)
    elif edit == "udt-redefined":
        udt = layout("ScopeUDT", 0x311, 0xC0F1, [("a", "DINT", 0), ("extra", "INT", 2), ("f", "BOOL", 0), ("g", "BOOL", 0), ("s", proj.types[0x311].members[-1].typ, 0)])
        for s in list(proj.all_tags()):
            if s.typ is proj.types[0x311]:
                s.typ = udt
                s.data = bytearray(s.nbytes)
        proj.types[0x311] = udt
    elif edit == "task-deleted":
        proj.symbols[:] = [s for s in proj.symbols if s.name != "Task:Periodic"]
    return proj


def online_edits_shard(rep, pers, tier):
    """E2: one driver, the project edited on-line between uploads.  After every get_tag_list the driver mirrors the project as it is
    NOW (programs that were deleted or renamed are not asked for again, changed definitions are re-read); every ordered pair of
    project states, and triples that return to the first state."""
    import pycomm3

    hist = [(a, b) for a in EDITS for b in EDITS if a != b] + [(a, b, a) for a in EDITS[:5] for b in EDITS[:5] if a != b]
    for h in hist:
        for how in ("*", "ctl"):
            if how == "ctl" and len(h) == 3:
                continue
            ctl = logix.LogixController(edited_p3(h[0]), pers)
            t = enip.Target(ctl, keep_cip=False)
            probs = []
            with net.World(t, io_budget=2_000_000):
                d = pycomm3.LogixDriver("10.0.0.1", init_program_tags=(how == "*"))
                o = call(d.open)
                if o != ("ok", True):
                    probs.append(("open", f"open() -> {o!r:.100}"))
                else:
                    for step, e in enumerate(h[1:], 1):
                        proj = edited_p3(e)
                        ctl.project = proj
                        r = call(d.get_tag_list, "*") if how == "*" else call(d.get_tag_list)
                        if r[0] != "ok":
                            probs.append(("refresh-failed", f"get_tag_list after the edit {h[step - 1]!r} -> {e!r}: {r!r:.140}"))
                            break
                        got = canon_result(d)
                        want = expected(proj, pers, "all" if how == "*" else "ctl")
                        got["types"] = {k: v for k, v in got["types"].items() if k in want["types"]}  # definitions no longer used may linger
                        df = diff(got, want)
                        if df:
                            probs.append((classify(df[0]), f"after the edit {h[step - 1]!r} -> {e!r}: {df[0]}"))
                            break
                    call(d.close)
            rep.case(("online-edits", pers, h, how), outcome="ok:" + how if not probs else probs[0][0])
            for clause, detail in probs[:1]:
                rep.violation(f"upload/after-online-edit/{clause}", f"P3/{pers} history {list(h)!r} ({'all scopes' if how == '*' else 'controller scope'}): {detail}", {"cfg": ["P3", pers, "online-edits"], "choices": [], "force": None})
    rep.sample({"online_edit_histories": len(hist), "personality": pers, "edits": list(EDITS)})


def run_shard(shard, tier, seed):
    rep = Report()
    kind, pn, pers, scope = shard[:4]
    if kind == "online-edits":
        online_edits_shard(rep, pers, tier)
        return rep
    part = (shard[4], PARTS) if len(shard) > 4 else None
    if kind == "twins":
        twins_shard(rep, pers)
        return rep
    if kind == "fixture":
        fixture_shard(rep)
        return rep
    cfg = (pn, pers, scope)
    image = seed % 4
    if pn == "P0":
        image = 0
    if kind == "explore":
        from vmc.core.explore import Diverged

        sc = scenario_for(pn, pers, scope, image=image)
        canons = set()
        bound = 2 if tier == "thorough" and pn != "P4" and (pn != "P0" or part is not None) else 1

        def on_exec(ctx, out):
            report_exec(rep, cfg, ctx, out)
            if out[2]:
                canons.add(out[2])
        try:
            check_deterministic(sc)
            st = explore(sc, bound, on_exec, part=part)
        except Diverged as e:
            # every execution builds a fresh controller, network and driver: if the same scenario meets different choice
            # points the second time, the library carries state from one upload / driver object to the next
            rep.case((cfg, "replay"), outcome="not-reproducible")
            rep.violation("upload/not-reproducible", f"{cfg}: the same upload executed twice in one process did not behave the same (state carried over between uploads): {str(e)[:160]}",
                          {"cfg": list(cfg), "choices": [], "force": None})
            st = {"execs": 0, "max_points": 0}
        if len(canons) > 1:
            rep.violation("upload/not-invariant", f"{cfg}: {len(canons)} different results over the explored pagination/fragmentation choices", {"cfg": list(cfg), "choices": [], "force": None})
        rep.sample({"config": cfg, "executions": st["execs"], "bound": bound, "choice_points_default_run": st["max_points"]})
    else:
        for force in ((1, 0), (0, 1), (0, 2), (0, 3), (0, 7), (1, 1), (2, 5)):
            if force[1] and force[1] < 3 and pn == "P4" and tier != "thorough":
                continue
            sc = scenario_for(pn, pers, scope, force=force, image=image)
            ctx = Ctx()
            out = sc(ctx)
            report_exec(rep, cfg, ctx, out, force)
        rep.sample({"config": cfg, "forced_modes": 7})
    return rep


def replay(r):
    cfg = r["cfg"]
    if cfg[2] == "online-edits":
        rep = Report()
        online_edits_shard(rep, cfg[1], "quick")
        for s, vs in rep.violations.items():
            print("  violates:", s, "::", vs[0].msg[:300])
        return not rep.violations
    sc = scenario_for(cfg[0], cfg[1], cfg[2], force=tuple(r["force"]) if r.get("force") else None)
    ctx = Ctx(r.get("choices") or [])
    out = sc(ctx)
    print("config:", cfg, "choices:", ctx.choices, "force:", r.get("force"))
    print("outcome:", out[0])
    for d in out[1] or ():
        print("   ", d)
    return out[0] in ("ok", "skip")

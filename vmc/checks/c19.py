"""C19 — code tables are total, bidirectional, case-insensitive lookups (E3, exhaustive)."""
import importlib
import inspect
import pkgutil

from vmc.core.report import Report

META = {
    "rule": "every (table, member, casing, operation) tuple over all EnumMap subclasses found by walking the "
    "package; every code 0..255 for DataTypes / from_reply / get_service_status; every (status, extended) "
    "pair of the extended-status table at sizes 0/1/2 words plus unknown ones. A case is non-trivial when it "
    "performs at least one lookup on a real table; distinct = distinct tuple.",
    "explanation": "bounded-exhaustive enumeration (the space is finite and is enumerated completely)",
    "assumptions": [
        "tables are discovered by walking the pycomm3 package for subclasses of pycomm3.map.EnumMap",
        "member set of a table = public, non-callable entries of the class body (read with vars(), not via the lookup under test)",
        "a code shared by several members may resolve to any member carrying it",
    ],
}


def tables():
    import pycomm3
    from pycomm3.map import EnumMap

    out = {}
    for m in pkgutil.walk_packages(pycomm3.__path__, "pycomm3."):
        mod = importlib.import_module(m.name)
        for name, obj in vars(mod).items():
            if inspect.isclass(obj) and issubclass(obj, EnumMap) and obj is not EnumMap:
                out[f"{obj.__module__}.{obj.__qualname__}"] = obj
    return dict(sorted(out.items()))


def members(M):
    return {
        k: v
        for k, v in vars(M).items()
        if not k.startswith("_") and not isinstance(v, (classmethod, staticmethod)) and not inspect.isfunction(v)
    }


class NameStr(str):
    """A name held in a str subclass (what a str-mixin Enum member, a numpy string or a tagged string of an application is)."""


def casings(n):
    alt = "".join(c.upper() if i % 2 else c.lower() for i, c in enumerate(n))
    d = {"lower": n.lower(), "upper": n.upper(), "capital": n.capitalize(), "alternate": alt, "asis": n}
    d.update({k + "-strsubclass": NameStr(v) for k, v in list(d.items())})
    return d


def _lookup(M, how, key):
    """-> ('ok', value) | ('KeyError',) | ('exc', type name)"""
    try:
        if how == "item":
            return ("ok", M[key])
        if how == "get":
            return ("ok", M.get(key))
        if how == "in":
            return ("ok", key in M)
    except KeyError:
        return ("KeyError",)
    except Exception as e:  # noqa
        return ("exc", type(e).__name__)


def shards(tier, seed):
    return [("tables", name) for name in tables()] + [("datatypes",), ("services",), ("status",), ("extstatus",), ("reply-text",)]


def describe(tier, seed):
    return {"bounds": {"tables": len(tables()), "codes": "0..255", "casings": 5}, "exhaustive": True}


def _carries(M, name, value, is_dt):
    """Does member `name` of M carry `value` (the code looked up)?"""
    mem = members(M)
    cands = [v for k, v in mem.items() if k.lower() == str(name).lower()]
    if not cands:
        return False
    if is_dt:
        return any(getattr(v, "code", None) == value for v in cands)
    return any(v == value for v in cands)


def golden_repr(v):
    if isinstance(v, (bytes, bytearray)):
        return "bytes:" + bytes(v).hex()
    if isinstance(v, bool) or not isinstance(v, (int, type, tuple)):
        return "repr:" + repr(v)[:80]
    if isinstance(v, int):
        return "int:%d" % v
    if isinstance(v, type):
        return "type:%s:%s" % (v.__name__, getattr(v, "code", None))
    if hasattr(v, "_fields"):
        return "attr:" + ":".join(str(getattr(x, "__name__", None) or (x.__class__.__name__ if not isinstance(x, (int, str, bytes)) else x)) for x in v)
    return "repr:" + repr(v)[:80]


_GOLDEN = None


def golden_tables():
    global _GOLDEN
    if _GOLDEN is None:
        import json
        import os

        _GOLDEN = json.load(open(os.path.join(os.path.dirname(os.path.dirname(os.path.dirname(os.path.abspath(__file__)))), "golden", "code_tables.json")))["tables"]
    return _GOLDEN


def check_table(rep, tname, M):
    from pycomm3.cip import DataTypes

    mem = members(M)
    is_dt = M is DataTypes
    # the codes are protocol constants: every member shipped at the pinned commit keeps its value (golden/code_tables.json); members may be added
    for n, want in golden_tables().get(tname, {}).items():
        got = golden_repr(mem[n]) if n in mem else "(member removed)"
        rep.case((tname, n, "golden"), outcome="golden:ok" if got == want else "golden:changed")
        if got != want:
            rep.violation("golden-code/changed", f"{tname}.{n} is {got}, the protocol constant shipped at the pinned commit is {want}", {"kind": "name", "table": tname, "name": n})
    for n, v in mem.items():
        for cname, key in casings(n).items():
            for how in ("item", "get", "in"):
                got = _lookup(M, how, key)
                rep.case((tname, n, cname, how), outcome=how + ":" + got[0])
                if how == "in":
                    ok = got == ("ok", True)
                else:
                    # another member may differ only by case: accept any member with that folded name
                    ok = got[0] == "ok" and any(got[1] is x or got[1] == x for k, x in mem.items() if k.lower() == n.lower())
                if not ok:
                    rep.violation(
                        f"name-lookup/{how}/{cname}",
                        f"{tname}: {how}({key!r}) -> {got!r}, expected member {n!r} = {v!r}",
                        {"kind": "name", "table": tname, "member": n, "casing": cname, "how": how},
                    )
        # code -> name -> code
        code = getattr(v, "code", None) if is_dt else v
        try:
            hash(code)
        except TypeError:
            continue
        for how in ("item", "get", "in"):
            got = _lookup(M, how, code)
            rep.case((tname, n, "code", how), outcome="code-" + how + ":" + got[0])
            if how == "in":
                ok = got == ("ok", True)
            else:
                ok = got[0] == "ok" and isinstance(got[1], str) and _carries(M, got[1], code, is_dt)
                if ok:
                    # and the name it returned resolves, by the same table, to something carrying the code
                    back = _lookup(M, "item", got[1])
                    bv = back[1] if back[0] == "ok" else None
                    ok = back[0] == "ok" and ((getattr(bv, "code", None) == code) if is_dt else bv == code)
            if not ok:
                rep.violation(
                    f"code-lookup/{how}",
                    f"{tname}: {how}({code!r}) -> {got!r}; expected a member name carrying that code (e.g. {n!r})",
                    {"kind": "code", "table": tname, "member": n, "how": how},
                )
    # non-members
    names = {k.lower() for k in mem}
    # non-members: near misses of member names, and every other attribute name the table (or its metaclass) has, in three letter cases
    attr_names = sorted({a for a in list(dir(M)) + list(dir(type(M)))})
    attr_forms = [f(a) for a in attr_names for f in (str, str.upper, str.capitalize)]
    for bogus in dict.fromkeys(["", "no_such_member_", *(k + "_" for k in list(mem)[:3]), *(k[:-1] for k in list(mem)[:3])] + attr_forms):
        if bogus.lower() in names:
            continue
        sentinel = object()
        r_in = _lookup(M, "in", bogus)
        r_item = _lookup(M, "item", bogus)
        try:
            r_get = ("ok", M.get(bogus, sentinel))
        except Exception as e:  # noqa
            r_get = ("exc", type(e).__name__)
        rep.case((tname, bogus, "bogus"), outcome="bogus:" + r_item[0])
        if r_in != ("ok", False) or r_item != ("KeyError",) or not (r_get[0] == "ok" and r_get[1] is sentinel):
            rep.violation(
                "non-member/consistency",
                f"{tname}: non-member {bogus!r}: in->{r_in!r} []->{r_item!r} get->{r_get!r}",
                {"kind": "bogus", "table": tname, "name": bogus},
            )
    # codes that belong to *other* tables only must not resolve here
    own = set()
    for v in mem.values():
        c = getattr(v, "code", None) if is_dt else v
        try:
            hash(c)
            own.add(c)
        except TypeError:
            pass
    for oname, O in tables().items():
        if O is M:
            continue
        o_dt = O is DataTypes
        for on, ov in members(O).items():
            c = getattr(ov, "code", None) if o_dt else ov
            try:
                hash(c)
            except TypeError:
                continue
            if c in own or (isinstance(c, str) and c.lower() in names):
                continue
            sentinel = object()
            r_in = _lookup(M, "in", c)
            r_item = _lookup(M, "item", c)
            try:
                r_get = ("ok", M.get(c, sentinel))
            except Exception as e:  # noqa
                r_get = ("exc", type(e).__name__)
            rep.case((tname, "foreign", oname, on), outcome="foreign:" + r_item[0])
            if r_in != ("ok", False) or r_item != ("KeyError",) or not (r_get[0] == "ok" and r_get[1] is sentinel):
                rep.violation(
                    "foreign-code/resolves",
                    f"{tname}: code {c!r} (member {on!r} of {oname}) is carried by no member here, yet in->{r_in!r} []->{r_item!r} get->{r_get!r:.60}",
                    {"kind": "bogus", "table": tname, "name": repr(c)},
                )
    rep.sample({"table": tname, "members": len(mem), "first": next(iter(mem), None)})


def check_datatypes(rep):
    from pycomm3.cip import DataTypes

    mem = members(DataTypes)
    by_code = {}
    for k, v in mem.items():
        by_code.setdefault(v.code, []).append(k)
    for code in range(65536 + 256):  # every 16-bit number (type codes are one byte; template ids and symbol types are wider) and a few beyond
        r_item = _lookup(DataTypes, "item", code)
        r_get = _lookup(DataTypes, "get", code)
        r_in = _lookup(DataTypes, "in", code)
        try:
            r_type = ("ok", DataTypes.get_type(code))
        except Exception as e:  # noqa
            r_type = ("exc", type(e).__name__)
        rep.case(("datatypes", code), nontrivial=True, outcome="dt:" + r_item[0], calls=4)
        if code in by_code:
            ok = (
                r_in == ("ok", True)
                and r_item[0] == "ok"
                and r_get == r_item
                and isinstance(r_item[1], str)
                and r_item[1].lower() in [k.lower() for k in by_code[code]]
                and r_type[0] == "ok"
                and getattr(r_type[1], "code", None) == code
            )
        else:
            ok = r_in == ("ok", False) and r_item == ("KeyError",) and r_get == ("ok", None) and r_type == ("ok", None)
        if not ok:
            rep.violation(
                "datatypes/code-resolution/" + ("known" if code in by_code else "unknown"),
                f"DataTypes code {code:#04x}: []->{r_item!r} get->{r_get!r} in->{r_in!r} get_type->{r_type!r}; members with that code: {by_code.get(code)}",
                {"kind": "dtcode", "code": code},
            )
    rep.sample({"datatype_codes_defined": len(by_code)})


def check_services(rep):
    from pycomm3.cip import Services

    mem = members(Services)
    by_code = {}
    for k, v in mem.items():
        by_code.setdefault(v, []).append(k)
    for reply in range(0x80, 0x100):
        try:
            got = ("ok", Services.from_reply(bytes([reply])))
        except Exception as e:  # noqa
            got = ("exc", type(e).__name__)
        req = bytes([reply - 0x80])
        rep.case(("from_reply", reply), outcome="from_reply:" + ("named" if got[0] == "ok" and got[1] else str(got)))
        if req in by_code:
            ok = got[0] == "ok" and isinstance(got[1], str) and got[1].lower() in by_code[req] and Services.get(got[1]) == req
        else:
            ok = got == ("ok", None)
        if not ok:
            rep.violation(
                "services/from_reply/" + ("known" if req in by_code else "unknown"),
                f"Services.from_reply({reply:#04x}) -> {got!r}, members with code {req!r}: {by_code.get(req)}",
                {"kind": "from_reply", "reply": reply},
            )


def check_status(rep):
    from pycomm3.packets.util import get_service_status
    from pycomm3.cip import SERVICE_STATUS

    for s in range(256):
        try:
            got = ("ok", get_service_status(s))
        except Exception as e:  # noqa
            got = ("exc", type(e).__name__)
        known = s in SERVICE_STATUS
        rep.case(("status", s), outcome="status:" + ("known" if known else "fallback"))
        if known:
            # the text of the table, and one that says WHICH status it was: its own text or the hex code (a catch-all shared by many codes does not)
            unique = sum(1 for v in SERVICE_STATUS.values() if v == SERVICE_STATUS[s]) == 1
            ok = got == ("ok", SERVICE_STATUS[s]) and bool(got[1]) and (unique or f"{s:02x}" in got[1].lower())
        else:
            ok = got[0] == "ok" and isinstance(got[1], str) and got[1] and f"{s:02x}" in got[1].lower()
        if not ok:
            rep.violation(
                "status-text/" + ("known" if known else "fallback"),
                f"get_service_status({s:#04x}) -> {got!r}",
                {"kind": "status", "status": s},
            )


def _ext_msg(status, size_words, ext):
    body = bytes([status, size_words])
    if size_words:
        body += ext.to_bytes(2 * size_words, "little")
    return body


def check_extstatus(rep):
    from pycomm3.packets.util import get_extended_status
    from pycomm3.cip import EXTEND_CODES

    for status in range(256):
        table = EXTEND_CODES.get(status, {})
        exts = set(table) | {0, 1, 0x7FFE, 0xFFFF}
        for ext in sorted(exts):
            for words in (0, 1, 2):
                if words == 0 and ext != 0:
                    continue
                for start in (0, 42, 48):
                    msg = bytes(start) + _ext_msg(status, words, ext) + b"\xEE" * 3
                    try:
                        got = ("ok", get_extended_status(msg, start))
                    except Exception as e:  # noqa
                        got = ("exc", type(e).__name__)
                    known = ext in table
                    rep.case(("ext", status, ext, words, start), outcome="ext:" + ("text" if got[0] == "ok" and got[1] else str(got[0])))
                    if known:
                        ok = got[0] == "ok" and isinstance(got[1], str) and table[ext] in got[1]
                    else:
                        ok = got[0] == "ok" and (got[1] is None or isinstance(got[1], str))
                    if not ok:
                        rep.violation(
                            "extended-status/" + ("known" if known else "unknown") + f"/words{words}",
                            f"get_extended_status(status={status:#04x}, ext={ext:#06x}, {words} word(s), start={start}) -> {got!r}; table text {table.get(ext)!r}",
                            {"kind": "ext", "status": status, "ext": ext, "words": words, "start": start},
                        )


def check_status_in_replies(rep):
    """The same lookups where an application meets them: the error text of a refused generic message, over a connection, through UCMM
    and through an Unconnected Send, for every status byte and every (status, extended status) pair of the tables (1 and 2 words)."""
    from pycomm3.cip import EXTEND_CODES, SERVICE_STATUS
    from . import c13
    from .harness import call

    for transport in ("connected", "ucmm", "ucsend"):
        wd = c13.World("cip")
        call(wd.d.open)
        kw = dict(connected=True) if transport == "connected" else dict(connected=False, unconnected_send=(transport == "ucsend"), route_path=(transport == "ucsend"))
        for st in range(1, 256):
            if st == 6:
                continue
            exts = [()] + [e for c in EXTEND_CODES.get(st, {}) for e in ((c,), (c, 0))] + [(0x7777,)]
            for ext in exts:
                wd.reply = (st, list(ext), b"")
                wd.w.io_budget = wd.w.io_total + 6000
                out = call(wd.d.generic_message, service=0x0E, class_code=0x99, instance=1, attribute=1, **kw)
                err = out[1].error if out[0] == "ok" else None
                txt = SERVICE_STATUS.get(st)
                unique = txt is not None and sum(1 for v_ in SERVICE_STATUS.values() if v_ == txt) == 1
                named = isinstance(err, str) and ((unique and txt in err) or f"{st:02x}" in err.lower())
                value = sum(w << (16 * i) for i, w in enumerate(ext))
                ext_txt = EXTEND_CODES.get(st, {}).get(value) if ext else None
                ok = out[0] == "ok" and not bool(out[1]) and named and (ext_txt is None or ext_txt in err)
                rep.case(("reply-text", transport, st, ext), outcome="ok:" + ("ext" if ext_txt else "status") if ok else "bad")
                if not ok:
                    rep.violation(f"status-text-in-reply/{transport}/{'extended' if ext_txt else 'status'}/words{len(ext)}",
                                  f"generic message ({transport}) refused with status {st:#04x} ext {[hex(x) for x in ext]}: error {err!r:.120}; table texts {txt!r:.50} / {ext_txt!r:.60} ({out!r:.60})",
                                  {"kind": "reply-text", "transport": transport})
        wd.close()
    rep.sample({"reply_texts": "status 1..255 x extended-status pairs of the table x 3 transports"})


def run_shard(shard, tier, seed):
    rep = Report()
    kind = shard[0]
    if kind == "reply-text":
        check_status_in_replies(rep)
        return rep
    if kind == "tables":
        check_table(rep, shard[1], tables()[shard[1]])
    elif kind == "datatypes":
        check_datatypes(rep)
    elif kind == "services":
        check_services(rep)
    elif kind == "status":
        check_status(rep)
    elif kind == "extstatus":
        check_extstatus(rep)
    return rep


def replay(r):
    rep = Report()
    k = r["kind"]
    if k in ("name", "code", "bogus"):
        check_table(rep, r["table"], tables()[r["table"]])
    elif k == "dtcode":
        check_datatypes(rep)
    elif k == "from_reply":
        check_services(rep)
    elif k == "status":
        check_status(rep)
    elif k == "reply-text":
        check_status_in_replies(rep)
    else:
        check_extstatus(rep)
    for sig, vs in rep.violations.items():
        for v in vs:
            print("  ", sig, "::", v.msg)
    return not rep.violations

"""C13 — replies are classified by their status words; bad replies cannot pass or crash (E3 + byte-fault enumeration)."""
import itertools
import struct

from vmc.core.report import Report
from vmc.ref import enip, net, logix, wire as W
from .harness import call
from .c10 import tiny_project

META = {
    "rule": "request kinds {generic connected, generic unconnected, unconnected-send, read, write, read-modify-write, fragmented read (first / middle / "
    "last fragment), fragmented write, multi-service read and write of 1-3 services, register session, list identity, forward open, "
    "forward close, symbol page, template attribute read, template read} x general status 0..255 x extended status {none, 1 word "
    "known/unknown, 2 words} x encapsulation status {1, 2, 3, 0x64, 0x65, 0x69, 0xFFFF} (header-only reply) x per-service status "
    "vectors over {0, 4, 5, 6, 0xFF+ext} for multi-service packets. Robustness: for one valid reply of every kind EVERY truncation "
    "(length field adjusted) and EVERY single-byte substitution by {0x00, 0x01, 0x7F, 0x80, 0xFF, b^1} at every position. Oracle: "
    "success <=> encapsulation status 0 and general status 0 (6 only where the service continues, and then it continues); otherwise a "
    "falsy result with a non-empty error naming the status (text of the library's table at run time, or its hex code) and the extended "
    "status when the table knows it; only PycommError escapes public calls; a reply cut before its status byte is never a success. "
    "distinct = distinct (kind, status tuple) or (kind, mutation).",
    "explanation": "exhaustive enumeration of the status space per request kind plus fault enumeration over reply bytes",
    "assumptions": [
        "status 6 is three-valued: must continue for Read Tag Fragmented, Get_Instance_Attribute_List and the template read; must fail for Read Tag, "
        "Write Tag, Read-Modify-Write, Get_Attributes_All, Forward Open/Close; unconstrained for Write Tag Fragmented, Multiple Service Packet, Get_Attribute_List",
        "for encapsulation-error replies the error text need not name the encapsulation code",
        "byte substitutions may legitimately change the decoded value; only the exception type, termination and the short-reply rule are checked for them",
    ],
}
ENCAP = (1, 2, 3, 0x64, 0x65, 0x69, 0xFFFF, 0x100, 0x10000, 0x650000, 0x1000000, 0x80000000, 0xFFFF0000, 0xFFFFFFFF)  # every byte and every half of the 32-bit status word on its own
EXTS = ((), (0x2105,), (0x0204,), (0x7777,), (1, 2), (0x0000,))
GEN_SERVICES = (0x01, 0x03, 0x0A, 0x0E, 0x10, 0x4C, 0x4E, 0x52, 0x53, 0x55)
CONTINUING = {0x03, 0x0A, 0x52, 0x53, 0x55}  # the services that legitimately continue (cip/services.py MULTI_PACKET_SERVICES as anchored)
SUBS = (0x00, 0x01, 0x7F, 0x80, 0xFF)


def status_text_ok(err, st, ext):
    from pycomm3.cip import SERVICE_STATUS, EXTEND_CODES

    if not isinstance(err, str) or not err:
        return False
    txt = SERVICE_STATUS.get(st)
    # a text names a status when no other status has it (a catch-all text shared by a range of codes does not say which one it was)
    unique = txt is not None and sum(1 for v in SERVICE_STATUS.values() if v == txt) == 1
    named = (unique and txt in err) or (f"{st:02x}" in err.lower())
    if not named:
        return False
    if 1 <= len(ext) <= 2:
        # the additional status is a little-endian number of 1 or 2 words; (code, 0) is the same number as (code,)
        value = sum(w << (16 * i) for i, w in enumerate(ext))
        if value in EXTEND_CODES.get(st, {}):
            return EXTEND_CODES[st][value] in err
    return True


def exts_for(st):
    """EXTS plus every extended code the library's table knows for this status, as one word and as two words."""
    from pycomm3.cip import EXTEND_CODES

    known = tuple(EXTEND_CODES.get(st, {}))
    return EXTS + tuple((c,) for c in known if (c,) not in EXTS) + tuple((c, 0) for c in known)


class World:
    """A fresh connected driver with hooks."""

    def __init__(self, drv="logix", policy=None, pers="v32", upload=True):
        import pycomm3

        self.proj = tiny_project()
        self.proj.tag("big", "INT", (900,), instance_id=20)
        from vmc.ref.projects import fill_image

        fill_image(self.proj, 0)
        if drv == "cip":
            self.dev = enip.IdentityDevice(lambda req, info: self.script(req, info))
        else:
            self.dev = logix.LogixController(self.proj, pers)
        self.t = enip.Target(self.dev, policy or enip.Policy(large_fo="refuse08"), keep_cip=False)
        self.w = net.World(self.t, io_budget=6000)
        self.w.__enter__()
        self.d = pycomm3.CIPDriver("10.0.0.1/bp/0") if drv == "cip" else pycomm3.LogixDriver("10.0.0.1", init_tags=upload)
        self.reply = (0, [], b"\x2a\x00")

    def script(self, req, info):
        if req.path[:1] == [("class", 0x99)]:
            return self.reply
        return None

    def close(self):
        self.w.__exit__()


def inject(world, match, forced):
    """Force (status, ext, data) for the n-th tag-service request matching `match(req)`."""
    state = {"n": 0}

    def hook(req, info):
        if match(req, state):
            return forced
        return None
    world.dev.status_hook = hook
    return state


# ---------------------------------------------------------------- status space per request kind
def kinds():
    """name -> (setup(world) -> (call thunk, matcher), six_rule, n_results)"""
    K = {}

    def svc(code, nth=None):
        def m(req, st):
            if req.service != code:
                return False
            st["n"] += 1
            return nth is None or st["n"] == nth
        return m

    K["read"] = (lambda wd: (lambda: wd.d.read("a_dint"), svc(0x4C)), "fail")
    K["write"] = (lambda wd: (lambda: wd.d.write("a_dint", 5), svc(0x4D)), "fail")
    K["rmw"] = (lambda wd: (lambda: wd.d.write("a_dint.3", True), svc(0x4E)), "fail")
    K["readfrag-first"] = (lambda wd: (lambda: wd.d.read("big{900}"), svc(0x52, 1)), "continue")
    K["readfrag-middle"] = (lambda wd: (lambda: wd.d.read("big{900}"), svc(0x52, 2)), "continue")
    K["readfrag-last"] = (lambda wd: (lambda: wd.d.read("big{900}"), svc(0x52, 4)), "unconstrained")
    K["writefrag-first"] = (lambda wd: (lambda: wd.d.write("big{900}", list(range(900))), svc(0x53, 1)), "unconstrained")
    K["writefrag-last"] = (lambda wd: (lambda: wd.d.write("big{900}", list(range(900))), svc(0x53, 4)), "unconstrained")
    K["template-attrs"] = (lambda wd: (lambda: wd.d.get_tag_list(), lambda req, st: req.service == 0x03 and req.path[:1] == [("class", 0x6C)]), "unconstrained")
    K["template-read"] = (lambda wd: (lambda: wd.d.get_tag_list(), lambda req, st: req.service == 0x4C and req.path[:1] == [("class", 0x6C)]), "continue")
    K["symbol-page"] = (lambda wd: (lambda: wd.d.get_tag_list(), svc(0x55)), "continue")
    K["multi-packet-read"] = (lambda wd: (lambda: wd.d.read("a_dint", "an_ary{4}", "a_udt"), svc(0x0A)), "unconstrained")
    K["multi-packet-write"] = (lambda wd: (lambda: wd.d.write(("a_dint", 5), ("an_ary{4}", [1, 2, 3, 4])), svc(0x0A)), "unconstrained")
    K["plc-name"] = (lambda wd: (lambda: wd.d.get_plc_name(), lambda req, st: req.path[:1] == [("class", 0x64)]), "fail")
    K["plc-info"] = (lambda wd: (lambda: wd.d.get_plc_info(), lambda req, st: req.path[:1] == [("class", 1)]), "fail")
    return K


def result_ok(out):
    """Does the public call report success?  (Tag truthy / True / non-empty dict or list)"""
    if out[0] != "ok":
        return False
    r = out[1]
    if isinstance(r, list):
        return bool(r) and all(bool(x) for x in r) if r and hasattr(r[0], "error") else bool(r)
    return bool(r)


def error_of(out):
    if out[0] == "pycomm":
        return out[2] or out[1]
    r = out[1]
    if isinstance(r, list) and r and hasattr(r[0], "error"):
        return next((x.error for x in r if not bool(x)), None)
    return getattr(r, "error", None)


def shards(tier, seed):
    sh = [("status", k) for k in kinds()] + [("generic", tr) for tr in ("connected", "ucmm", "ucsend")] + [("multi", op) for op in ("read", "write")]
    sh += [("encap", "x"), ("lifecycle", "x")]
    sh += [("mutate", k) for k in MUT_KINDS]
    sh += [("status", "readfrag-middle", "debuglog"), ("status", "write", "debuglog"), ("multi", "read", "debuglog"), ("multi", "write", "debuglog"), ("mutate", "read-multi", "python-O"), ("mutate", "generic-connected-typed", "python-O"), ("encap", "x", "python-O"), ("status", "rmw", "python-O"), ("encap", "x", "debuglog"), ("mutate", "read-multi", "debuglog")]
    return sh


def describe(tier, seed):
    return {"bounds": {"general_status": "0..255", "extended": [list(e) for e in EXTS], "encapsulation_status": list(ENCAP), "mutations": "every truncation + 6 substitutions per byte, one reply per kind", "request_kinds": len(kinds()) + 3 + 2 + len(MUT_KINDS)}, "exhaustive": True}


def check_status_case(rep, kind, st, ext, out, six_rule, sig):
    ok = result_ok(out)
    probs = []
    if out[0] not in ("ok", "pycomm"):
        probs.append(("foreign-exception", f"{out!r:.120}"))
    elif out[0] == "pycomm" and st != 0 and kind in ("read", "write", "rmw", "readfrag-first", "readfrag-middle", "readfrag-last", "writefrag-first", "writefrag-last", "multi-packet-read", "multi-packet-write"):
        probs.append(("raised-instead-of-falsy", f"general status {st:#04x} ext {list(ext)}: the call raised {out[1]}: {str(out[2])[:60]!r} instead of returning a falsy result"))
    elif st == 0:
        if not ok:
            probs.append(("success-rejected", f"status 0 but result {out!r:.120}"))
    elif st == 6 and six_rule != "fail":
        pass  # must-continue kinds are exercised by the natural fragmented transfers; here nothing is demanded
    else:
        if ok:
            probs.append(("error-accepted", f"general status {st:#04x} ext {list(ext)} but the call reports success: {out!r:.100}"))
        else:
            err = error_of(out)
            if not (isinstance(err, str) and err):
                probs.append(("empty-error", f"general status {st:#04x}: falsy result without an error text: {out!r:.100}"))
            elif st == 0x1E and kind.startswith("multi-packet"):
                pass  # 0x1E on a Multiple Service Packet promises embedded replies; without them the reply is not well formed, only "falsy with a text" is demanded
            elif out[0] == "ok" and sig != "helper" and not status_text_ok(err, st, ext):
                probs.append(("error-text", f"general status {st:#04x} ext {[hex(x) for x in ext]}: error {err!r:.100} does not name the status"))
    rep.case((kind, st, tuple(ext)), outcome=("ok:" + ("success" if ok else "falsy" if out[0] == "ok" else "library-exception")) if not probs else probs[0][0])
    for clause, detail in probs:
        cls = "status0" if st == 0 else "status6" if st == 6 else "error-status"
        rep.violation(f"{sig}/{kind}/{clause}/{cls}/ext{len(ext)}", f"{kind}: {detail}", {"kind": "status", "req": kind, "status": st, "ext": list(ext)})


def run_status(rep, kind, tier):
    setup, six_rule = kinds()[kind]
    helper = kind in ("template-attrs", "template-read", "symbol-page", "plc-name", "plc-info")
    statuses = range(256)
    wd = World()
    o = call(wd.d.open)
    for st in statuses:
        for ext in exts_for(st):
            if st == 0 and ext:
                continue
            if tier != "thorough" and ext in ((0x7777,), (1, 2), (0x0000,)) and st not in (1, 4, 5, 6, 0xFF, 0x1E, 0x13):
                continue
            if st == 0 or (st == 6 and six_rule == "continue"):
                continue  # the natural run (status 0 / legitimate continuation) is covered by C01/C02/C05
            thunk, matcher = setup(wd)
            if not helper and (st % 16 == 1 or st in (4, 5, 6, 0xFF)):
                # history: the same operation succeeds first, then the controller refuses it
                wd.w.io_budget = wd.w.io_total + 6000
                pre_ok = call(thunk)
                if not result_ok(pre_ok):
                    rep.violation(f"tag-service/{kind}/success-rejected/status0/ext0", f"{kind}: the un-injected operation failed: {pre_ok!r:.100}", {"kind": "status", "req": kind, "status": 0, "ext": []})
            inject(wd, matcher, (st, list(ext), b""))
            wd.w.io_budget = wd.w.io_total + 6000
            out = call(thunk)
            wd.dev.status_hook = None
            check_status_case(rep, kind, st, ext, out, six_rule, "helper" if helper else "tag-service")
            if out[0] == "hang" or not wd.d.connected:
                wd.close()
                wd = World()
                call(wd.d.open)
    wd.close()
    rep.sample({"kind": kind, "statuses": "1..255", "six_rule": six_rule})


def run_generic(rep, transport, tier):
    wd = World("cip")
    call(wd.d.open)
    kw = dict(connected=True) if transport == "connected" else dict(connected=False, unconnected_send=(transport == "ucsend"), route_path=(transport == "ucsend"))
    for st in range(256):
        for ext in exts_for(st):
            if st == 0 and ext:
                continue
            for data in (b"", b"\x01\x02\x03"):
                wd.reply = (st, list(ext), data)
                wd.w.io_budget = wd.w.io_total + 6000
                out = call(wd.d.generic_message, service=0x0E, class_code=0x99, instance=1, attribute=1, **kw)
                rule = "unconstrained" if transport == "connected" else "fail"  # Get_Attribute_Single over a connection: library treats 6 by service
                if st == 6 and transport == "connected":
                    rule = "fail"  # 0x0E is not a multi-packet service
                check_status_case(rep, f"generic-{transport}", st, ext, out, rule, "generic")
    # the service decides whether 6 (partial transfer) is a success; the requested data type must not
    from pycomm3 import UINT, Struct, USINT

    pair = Struct(USINT("lo"), USINT("hi"))
    for svc in GEN_SERVICES:
        for dt_name, dt, want in (("none", None, b"\x01\x02"), ("UINT", UINT, 0x0201), ("struct", pair, {"lo": 1, "hi": 2})):
            for st in (0, 6, 5):
                wd.reply = (st, [], b"\x01\x02")
                wd.w.io_budget = wd.w.io_total + 6000
                out = call(wd.d.generic_message, service=svc, class_code=0x99, instance=1, data_type=dt, **kw)
                cont = svc in CONTINUING
                must_ok = st == 0 or (st == 6 and cont and transport == "connected")
                free = st == 6 and cont and transport != "connected"  # SendRRData has no continuing services in the library; nothing demanded
                prob = None
                if out[0] not in ("ok", "pycomm"):
                    prob = ("foreign-exception", f"{out!r:.120}")
                elif must_ok and not result_ok(out):
                    prob = ("success-rejected", f"service {svc:#04x} status {st} data_type {dt_name}: a success by the status words comes back as {out!r:.100}")
                elif must_ok and getattr(out[1], "value", None) != want:
                    prob = ("success-value", f"service {svc:#04x} status {st} data_type {dt_name}: value {getattr(out[1], 'value', None)!r:.60}, the reply data decode to {want!r}")
                elif not must_ok and not free and result_ok(out):
                    prob = ("error-accepted", f"service {svc:#04x} status {st} data_type {dt_name} reported as success: {out!r:.100}")
                elif not must_ok and not free and out[0] == "ok" and not status_text_ok(error_of(out), st, ()):
                    prob = ("error-text", f"service {svc:#04x} status {st} data_type {dt_name}: error {error_of(out)!r:.80} does not name the status")
                rep.case(("generic-svc", transport, svc, dt_name, st), outcome="ok" if prob is None else prob[0])
                if prob:
                    rep.violation(f"generic/{transport}/service-sweep/{prob[0]}/status{st}/{'continuing' if cont else 'plain'}/{dt_name}", prob[1], {"kind": "generic-svc", "transport": transport, "service": svc, "status": st, "data_type": dt_name})
    wd.close()
    rep.sample({"generic": transport, "statuses": "0..255 x ext sizes 0/1/2 + every extended code of the table as 1 and 2 words", "services": [hex(x) for x in GEN_SERVICES]})


def run_multi(rep, op, tier):
    """Per-service status vectors inside a multiple service packet."""
    import itertools

    vals = (0, 4, 5, 6, 0xFF, 0x2A)  # 0x2A: a status the library has no text for
    wd = World()
    call(wd.d.open)
    tags = ["a_dint", "an_ary{4}", "a_udt"]
    # all vectors over `vals` for 2 and 3 services, and every status byte next to a good service (in front of and behind it)
    vectors = [v for n in (2, 3) for v in itertools.product(vals, repeat=n)] + [v for s in range(1, 256) if s not in vals for v in ((0, s), (s, 0))]
    if op == "read":
        # -1: the member's reply is only its 4-byte header (status 0, no type code, no data): too short to hold a value, whatever follows it in the packet
        vectors += [v for n in (2, 3) for v in itertools.product((0, -1), repeat=n) if -1 in v] + [(-1, 5), (5, -1), (-1, 0xFF, 0)]
    clean = None
    for n in (0,):
        for vec in vectors:
            n = len(vec)
            if n == 1:
                continue  # single requests do not use the multi-service packet
            state = {"i": -1}
            pre = wd.proj.snapshot()

            def hook(req, info, vec=vec, state=state):
                if info.get("max_reply", 0) >= 10**8 and req.service in (0x4C, 0x4D):
                    state["i"] += 1
                    s = vec[state["i"] % len(vec)]
                    if s == -1:
                        return (0, [], b"")
                    if s:
                        return (s, [0x2105] if s == 0xFF else [], b"")
                return None
            wd.dev.status_hook = hook
            if op == "read":
                out = call(wd.d.read, *tags[:n])
            else:
                from . import logixreq as Q

                out = call(wd.d.write, *[("a_dint", 5), ("an_ary{4}", [1, 2, 3, 4]), ("a_udt", {"a": 7, "f": True})][:n])
            wd.dev.status_hook = None
            wd.proj.restore(pre)
            probs = []
            if out[0] != "ok":
                probs.append(("exception", f"{out!r:.120}"))
            elif not isinstance(out[1], list) or len(out[1]) != n:
                probs.append(("shape", f"{out[1]!r:.100}"))
            else:
                if op == "read" and clean is None and all(x == 0 for x in vec) and all(bool(g) for g in out[1]):
                    clean = [g.value for g in out[1]] + [None] * 3
                for i, (g, s) in enumerate(zip(out[1], vec)):
                    if s == -1:
                        if bool(g):
                            probs.append(("short-reply-accepted", f"service #{i} answered with a bare header (status 0, no data) but its Tag is truthy: {g!r:.80}"))
                        elif not (isinstance(g.error, str) and g.error):
                            probs.append(("empty-error", f"service #{i} answered with a bare header: falsy Tag without an error text"))
                    elif s == 0 and op == "read" and bool(g) and clean is not None and -1 in vec and clean[i] is not None and g.value != clean[i]:
                        probs.append(("neighbour-value", f"service #{i} (status 0) next to a bare-header reply returned {g.value!r:.60}, the tag holds {clean[i]!r:.60}"))
                    elif s == 0 and not bool(g):
                        probs.append(("success-rejected", f"service #{i} had status 0 but its Tag is falsy: {g!r:.80}"))
                    elif s not in (0, 6) and bool(g):
                        probs.append(("error-accepted", f"service #{i} had status {s:#04x} but its Tag is truthy"))
                    elif s not in (0, 6) and not status_text_ok(g.error, s, (0x2105,) if s == 0xFF else ()):
                        probs.append(("error-text", f"service #{i} status {s:#04x}: error {g.error!r:.80} does not name it"))
                    elif s == 6 and bool(g) and op == "read":
                        probs.append(("error-accepted", f"service #{i} (Read Tag) had status 6 (partial) but its Tag is truthy"))
            rep.case(("multi", op, vec), outcome="ok" if not probs else probs[0][0])
            for clause, detail in probs[:2]:
                rep.violation(f"multi-service/{op}/{clause}", f"{op} of {n} services with status vector {[hex(x) for x in vec]}: {detail}", {"kind": "multi", "op": op, "vec": list(vec)})
    wd.close()
    rep.sample({"multi_service": op, "vectors": "all over {0,4,5,6,0xFF,0x2A} for 2 and 3 services; every status 1..255 beside a good service"})


RESULT_OPS = ("generic-connected", "generic-unconnected", "read", "write", "read-multi", "write-multi", "readfrag", "writefrag", "rmw")


def run_encap(rep, tier):
    """Header-only encapsulation error replies for every request kind."""
    ops = {
        "generic-connected": ("cip", lambda wd: wd.d.generic_message(service=0x0E, class_code=0x99, instance=1), W.CMD_UNITDATA),
        "generic-unconnected": ("cip", lambda wd: wd.d.generic_message(service=0x0E, class_code=0x99, instance=1, connected=False, unconnected_send=True), W.CMD_RRDATA),
        "read": ("logix", lambda wd: wd.d.read("a_dint"), W.CMD_UNITDATA),
        "write": ("logix", lambda wd: wd.d.write("a_dint", 3), W.CMD_UNITDATA),
        "read-multi": ("logix", lambda wd: wd.d.read("a_dint", "a_udt"), W.CMD_UNITDATA),
        "readfrag": ("logix", lambda wd: wd.d.read("big{900}"), W.CMD_UNITDATA),
        "list-identity": ("cip", lambda wd: wd.d._list_identity(), W.CMD_LIST_IDENTITY),
        "upload": ("logix", lambda wd: wd.d.get_tag_list(), W.CMD_UNITDATA),
        "logix-open/list-identity": ("logix-fresh", lambda wd: wd.d.open(), W.CMD_LIST_IDENTITY),
        "logix-open/plc-info": ("logix-fresh", lambda wd: wd.d.open(), W.CMD_RRDATA),
        "logix-open/plc-name": ("logix-fresh", lambda wd: wd.d.open(), W.CMD_UNITDATA),
    }
    ops["write-multi"] = ("logix", lambda wd: wd.d.write(("a_dint", 3), ("an_ary{4}", [1, 2, 3, 4])), W.CMD_UNITDATA)
    ops["writefrag"] = ("logix", lambda wd: wd.d.write("big{900}", list(range(900))), W.CMD_UNITDATA)
    ops["rmw"] = ("logix", lambda wd: wd.d.write("a_dint.3", True), W.CMD_UNITDATA)
    for name, (drv, thunk, cmd) in ops.items():
        for es, body_kept in [(e, False) for e in ENCAP] + [(e, True) for e in ENCAP]:
            for nth in (1, 2):
                wd = World("logix", upload=False) if drv == "logix-fresh" else World(drv)
                if drv != "logix-fresh":
                    call(wd.d.open)
                state = {"n": 0}

                def hook(fr, reply, es=es, cmd=cmd, nth=nth, state=state, body_kept=body_kept):
                    if fr.command == cmd:
                        state["n"] += 1
                        if state["n"] == nth:
                            if body_kept and reply and len(reply) >= 24:
                                # the whole (otherwise successful) reply, but the encapsulation header reports an error
                                return reply[:8] + struct.pack("<I", es) + reply[12:]
                            return W.build_frame(fr.command, fr.session, b"", status=es, context=fr.context)
                    return reply
                wd.t.reply_hook = hook
                out = call(thunk, wd)
                wd.t.reply_hook = None
                hit = state["n"] >= nth
                ok = result_ok(out)
                probs = []
                if hit:
                    if out[0] not in ("ok", "pycomm"):
                        probs.append(("foreign-exception", f"{out!r:.120}"))
                    elif out[0] == "pycomm" and name in RESULT_OPS and nth == 1:
                        # the property promises a falsy RESULT with an error text for a well-formed error reply to a read / write / message, not an exception
                        probs.append(("raised-instead-of-falsy", f"encapsulation status {es:#x}: the call raised {out[1]}: {str(out[2])[:60]!r}"))
                    elif name.startswith("logix-open"):
                        pass  # open() may legitimately succeed (ListIdentity is advisory, a refused Forward Open is retried): only the exception type is constrained
                    elif ok and name != "list-identity":
                        probs.append(("error-accepted", f"encapsulation status {es:#x} on reply #{nth} but the call reports success: {out!r:.100}"))
                    elif out[0] == "ok" and name not in ("list-identity",) and not name.startswith("logix-open") and not (isinstance(error_of(out), str) and error_of(out)):
                        probs.append(("empty-error", f"encapsulation status {es:#x}: falsy result without an error text: {out!r:.100}"))
                rep.case(("encap", name, es, nth, body_kept), nontrivial=hit, outcome="ok" if not probs else probs[0][0])
                for clause, detail in probs:
                    rep.violation(f"encapsulation-error/{name}/{clause}" + ("/body-kept" if body_kept else ""), f"{name}: {detail}" + (" (reply body present)" if body_kept else ""), {"kind": "encap", "name": name, "es": es, "nth": nth})
                wd.close()
    rep.sample({"encapsulation_errors": list(ops), "statuses": list(ENCAP)})


def run_lifecycle(rep, tier):
    """Register session / Forward Open / Forward Close replies with every status."""
    for st in range(1, 256):
        for ext in ((), (0x0100,), (0x0109,), (0x7777,)):
            # forward open refused with any status: a connected request must fail with a library exception or falsy Tag
            wd = World("cip")
            call(wd.d.open)

            def hook(fr, reply, st=st, ext=ext):
                if fr.command == W.CMD_RRDATA and len(fr.body) > 16 and fr.body[16] in (0x54, 0x5B):
                    rep_ = W.build_mr_reply(fr.body[16], st, list(ext), b"")
                    return W.build_frame(fr.command, fr.session, W.build_cpf([(0, b""), (0xB2, rep_)]), context=fr.context)
                return reply
            wd.t.reply_hook = hook
            out = call(wd.d.generic_message, service=0x0E, class_code=0x99, instance=1)
            wd.t.reply_hook = None
            probs = []
            if out[0] not in ("ok", "pycomm"):
                probs.append(("foreign-exception", f"{out!r:.120}"))
            elif result_ok(out) and st != 6:
                probs.append(("error-accepted", f"Forward Open answered with status {st:#04x} but a connected request succeeded"))
            elif result_ok(out) and st == 6:
                probs.append(("error-accepted", "Forward Open answered with status 6 (partial) but a connected request succeeded"))
            rep.case(("fo", st, ext), outcome="ok" if not probs else probs[0][0])
            for clause, detail in probs:
                rep.violation(f"forward-open/{clause}", detail, {"kind": "lifecycle", "what": "fo", "status": st, "ext": list(ext)})
            # forward close refused: close() must not raise anything foreign and the driver ends not connected
            wd.t.reply_hook = None
            wd.close()
    # a refusing target may leave anything in the session-handle field and may or may not echo the request body
    for es, handle, echo in itertools.product(ENCAP, (0, 0x1234, 0x80000001, 0xFFFFFFFF), (True, False)):
        wd = World("cip")

        def hook(fr, reply, es=es, handle=handle, echo=echo):
            if fr.command == W.CMD_REGISTER:
                return W.build_frame(fr.command, handle, fr.body if echo else b"", status=es, context=fr.context)
            return reply
        wd.t.reply_hook = hook
        out = call(wd.d.open)
        probs = []
        if out[0] not in ("ok", "pycomm"):
            probs.append(("foreign-exception", f"{out!r:.120}"))
        elif out == ("ok", True):
            probs.append(("error-accepted", f"RegisterSession answered with encapsulation status {es:#x} (session field {handle:#x}, body {'echoed' if echo else 'empty'}) but open() returned True"))
        rep.case(("register", es, handle, echo), outcome="ok" if not probs else probs[0][0])
        for clause, detail in probs:
            rep.violation(f"register-session/{clause}", detail, {"kind": "lifecycle", "what": "register", "status": es, "ext": []})
        wd.close()
    rep.sample({"forward_open_statuses": "1..255 x 4 extended", "register_session_statuses": list(ENCAP)})


# ---------------------------------------------------------------- byte-level faults on one valid reply per kind
MUT_KINDS = {
    # name: (driver kind, needs open, thunk, encapsulation command of the reply, which reply (1-based) of that command during the thunk, status offset)
    "register": ("cip", False, lambda wd: wd.d.open(), W.CMD_REGISTER, 1, 11),
    "list-identity": ("cip", True, lambda wd: wd.d._list_identity(), W.CMD_LIST_IDENTITY, 1, 11),
    "forward-open": ("cip", True, lambda wd: wd.d.generic_message(service=0x0E, class_code=0x99, instance=1), W.CMD_RRDATA, 1, 42),
    "generic-unconnected": ("cip", True, lambda wd: wd.d.generic_message(service=0x0E, class_code=0x99, instance=1, connected=False, unconnected_send=True), W.CMD_RRDATA, 1, 42),
    "generic-connected": ("cip", True, lambda wd: wd.d.generic_message(service=0x0E, class_code=0x99, instance=1), W.CMD_UNITDATA, 1, 48),
    # the same with a data type for the reply data (a cut reply no longer decodes)
    "generic-connected-typed": ("cip", True, lambda wd: wd.d.generic_message(service=0x0E, class_code=0x99, instance=1, data_type=__import__("pycomm3").UINT), W.CMD_UNITDATA, 1, 48),
    "generic-unconnected-typed": ("cip", True, lambda wd: wd.d.generic_message(service=0x0E, class_code=0x99, instance=1, connected=False, unconnected_send=True, data_type=__import__("pycomm3").UINT), W.CMD_RRDATA, 1, 42),
    "generic-ucmm-typed-struct": ("cip", True, lambda wd: wd.d.generic_message(service=0x0E, class_code=0x99, instance=1, connected=False, route_path=False,
                                                                             data_type=__import__("pycomm3").Struct(__import__("pycomm3").USINT("a"), __import__("pycomm3").USINT("b"))), W.CMD_RRDATA, 1, 42),
    "read": ("logix", True, lambda wd: wd.d.read("a_dint"), W.CMD_UNITDATA, 1, 48),
    "read-struct": ("logix", True, lambda wd: wd.d.read("a_udt"), W.CMD_UNITDATA, 1, 48),
    "read-multi": ("logix", True, lambda wd: wd.d.read("a_dint", "a_udt", "an_ary{4}"), W.CMD_UNITDATA, 1, 48),
    "readfrag-middle": ("logix", True, lambda wd: wd.d.read("big{900}"), W.CMD_UNITDATA, 2, 48),
    "write": ("logix", True, lambda wd: wd.d.write("a_dint", 5), W.CMD_UNITDATA, 1, 48),
    "rmw": ("logix", True, lambda wd: wd.d.write("a_dint.1", True), W.CMD_UNITDATA, 1, 48),
    "write-multi": ("logix", True, lambda wd: wd.d.write(("a_dint", 5), ("an_ary{4}", [1, 2, 3, 4])), W.CMD_UNITDATA, 1, 48),
    "symbol-page": ("logix-noupload", True, lambda wd: wd.d.get_tag_list(), W.CMD_UNITDATA, 1, 48),
    "template-read": ("logix-noupload", True, lambda wd: wd.d.get_tag_list(), W.CMD_UNITDATA, 3, 48),
    "forward-close": ("cip-connected", True, lambda wd: wd.d.close(), W.CMD_RRDATA, 1, 42),
    # LogixDriver.open(): ListIdentity, Identity (get_plc_info) and program-name replies are consumed while initialising
    "logix-open/list-identity": ("logix-fresh", False, lambda wd: wd.d.open(), W.CMD_LIST_IDENTITY, 1, 11),
    "logix-open/plc-info": ("logix-fresh", False, lambda wd: wd.d.open(), W.CMD_RRDATA, 1, 42),
    "logix-open/plc-name": ("logix-fresh", False, lambda wd: wd.d.open(), W.CMD_UNITDATA, 1, 48),
}


def one_mutation(kind, mutate):
    drv, need_open, thunk, cmd, nth, stoff = MUT_KINDS[kind]
    if drv in ("logix-noupload", "logix-fresh"):
        wd = World("logix", upload=False)
    elif drv == "cip-connected":
        wd = World("cip")
    else:
        wd = World(drv)
    if need_open:
        call(wd.d.open)
        if drv == "cip-connected":
            call(wd.d.generic_message, service=0x0E, class_code=0x99, instance=1)
        if drv == "logix-noupload":
            call(wd.d.get_plc_name)  # make sure the connection exists before counting replies
    state = {"n": 0, "orig": None}

    def hook(fr, reply):
        if fr.command == cmd and reply:
            state["n"] += 1
            if state["n"] == nth:
                state["orig"] = reply
                return mutate(reply)
        return reply
    wd.t.reply_hook = hook
    wd.w.io_budget = wd.w.io_total + 6000
    out = call(thunk, wd)
    wd.t.reply_hook = None
    wd.close()
    return out, state["orig"]


def run_mutate(rep, kind, tier):
    drv, need_open, thunk, cmd, nth, stoff = MUT_KINDS[kind]
    out0, orig = one_mutation(kind, lambda r: r)
    if orig is None:
        rep.violation(f"mutation/{kind}/no-reply-seen", f"{kind}: the clean run produced no reply #{nth} of command {cmd:#x}: {out0!r:.100}", {"kind": "mutate", "req": kind, "mut": None})
        return
    n = len(orig)
    muts = []
    for k in range(0, n):  # truncations keep a consistent length field so that the transport delivers the frame
        muts.append(("trunc", k))
    for pos in range(n):
        for sub in SUBS + (orig[pos] ^ 1,):
            if sub != orig[pos]:
                muts.append(("sub", pos, sub))
    for m in muts:
        if m[0] == "trunc":
            k = m[1]
            def mutate(r, k=k):
                cut = bytearray(r[:k])
                if k >= 4:
                    struct.pack_into("<H", cut, 2, max(k - 24, 0))
                return bytes(cut)
        else:
            def mutate(r, m=m):
                b = bytearray(r)
                b[m[1]] = m[2]
                return bytes(b)
        out, _ = one_mutation(kind, mutate)
        probs = []
        if out[0] == "foreign":
            probs.append(("foreign-exception", f"{out[1]}: {out[2]}"))
        elif out[0] == "hang":
            probs.append(("hang", "I/O budget exceeded"))
        elif m[0] == "trunc" and m[1] <= stoff and result_ok(out) and kind not in ("forward-close", "forward-open", "list-identity") and not kind.startswith("logix-open"):
            # (a refused/unreadable Forward Open is legitimately retried with the standard service; close() and list-identity have no success value)
            probs.append(("short-reply-accepted", f"reply cut to {m[1]} bytes (last status byte at offset {stoff}) reported as success: {out!r:.100}"))
        rep.case((kind, m), outcome=("ok:" + ("success" if result_ok(out) else "falsy" if out[0] == "ok" else "library-exception")) if not probs else probs[0][0])
        for clause, detail in probs:
            where = "header" if (m[1] < 24) else "cpf" if m[1] < 44 else "cip"
            rep.violation(f"mutation/{kind}/{clause}/{m[0]}/{where}", f"{kind}: reply {'truncated to' if m[0] == 'trunc' else 'byte substituted at'} {m[1:]}: {detail}", {"kind": "mutate", "req": kind, "mut": list(m)})
    rep.sample({"kind": kind, "reply_len": n, "mutations": len(muts), "reply": orig[:48].hex()})


def run_shard(shard, tier, seed):
    rep = Report()
    k = shard[0]
    if k == "status":
        run_status(rep, shard[1], tier)
    elif k == "generic":
        run_generic(rep, shard[1], tier)
    elif k == "multi":
        run_multi(rep, shard[1], tier)
    elif k == "encap":
        run_encap(rep, tier)
    elif k == "lifecycle":
        run_lifecycle(rep, tier)
    elif k == "mutate":
        run_mutate(rep, shard[1], tier)
    return rep


def replay(r):
    rep = Report()
    k = r["kind"]
    if k == "status":
        if r["req"].startswith("generic-"):
            run_generic(rep, r["req"][8:], "quick")
        else:
            run_status(rep, r["req"], "thorough")
    elif k == "generic-svc":
        run_generic(rep, r["transport"], "quick")
    elif k == "multi":
        run_multi(rep, r["op"], "quick")
    elif k == "encap":
        run_encap(rep, "quick")
    elif k == "lifecycle":
        run_lifecycle(rep, "quick")
    else:
        run_mutate(rep, r["req"], "quick")
    for s, vs in rep.violations.items():
        print("  violates:", s, "::", vs[0].msg[:300])
    return not rep.violations

"""C10 — connection lifecycle is safe under any call history and failure point (E2 histories x E1 fault positions)."""
from collections import deque

from vmc.core.explore import BudgetExceeded
from vmc.core.report import Report
from vmc.ref import enip, net, logix, slc
from vmc.ref.projects import Project, fill_image, layout
from .harness import call

META = {
    "rule": "drivers {CIPDriver, LogixDriver(init_tags=False), LogixDriver() with tag upload, SLCDriver} x target policies {large Forward Open ok, "
    "large refused (service not supported), large refused (invalid size), all Forward Opens refused, session refused, TCP refused, "
    "large refused with no / one byte of failure data, Forward Close refused, RegisterSession refused with a non-zero session field, target busy for the first 1 / 2 Forward Opens, "
    "session handles / connection ids with the top bit set} x events {open, close, read, write, generic connected, generic unconnected, with-block normal, "
    "with-block raising, with-block doing connected work and left by a foreign CommError}; breadth-first search over call histories, each history replayed on a fresh driver against a fresh stateful "
    "target; one transport fault (send error, partial send then error, receive error, peer vanishes, truncated reply then peer "
    "vanishes) at EVERY I/O index of EVERY event (quick: one fault per history, depth 3; thorough: two faults, depth 4); states are "
    "de-duplicated by (driver.connected, connection size, TCP open, target session/connection tables, refused Forward Open "
    "flavours, faults used, library flags). Invariants I1-I6 after every transition; from every new state the probe "
    "close(); open(); request must work when the policy allows. transitions = replayed histories.",
    "explanation": "explicit-state BFS over call histories replayed on the real drivers, with exhaustive single-fault injection",
    "assumptions": [
        "'large first' is per driver object: after a refused large Forward Open later connections may go straight to the standard one (500 bytes)",
        "SendRRData with a stale session handle is not itself a violation; the error reply must surface as a falsy result or PycommError",
        "a target is 'still reachable' for close() when no fault was injected during that close and the TCP connection was not killed by an earlier fault",
        "the exception raised by user code inside a with-block propagates unchanged",
    ],
}
DRIVERS = ("cip", "logix_noinit", "logix_upload", "slc")
POLICIES = {
    "ok": dict(),
    "large08": dict(large_fo="refuse08"),
    "large0109": dict(large_fo="refuse0109"),
    "large08bare": dict(large_fo="refuse08bare"),
    "large0109bare": dict(large_fo="refuse0109bare"),
    "nofo": dict(large_fo="refuse08", std_fo="refuse"),
    "nosession": dict(session="refuse"),
    "nosession_h": dict(session="refuse-with-handle"),
    "notcp": dict(),
    "nofclose": dict(fclose="refuse"),
    "svc6": dict(), "svc8": dict(large_fo="refuse08"),
    # a target that is out of connections at first: the first 1 / 2 Forward Opens are refused, later ones accepted
    "busy1": dict(fo_refuse_first=1),
    "busy2": dict(fo_refuse_first=2),
    # legal but unusual identifiers: session handles and connection ids with the top bit set, and the smallest ones
    # Forward Opens refused with general statuses outside the documented ones (vendor specific 0xD0 for the large one, reserved 0x20 for both)
    "fo_d0": dict(large_fo="refuse:d0"),
    "fo_20": dict(large_fo="refuse:20", std_fo="refuse:20"),
    "hiids": dict(session_handles=[0x80000001, 0xFFFFFFFE, 0x7FFFFFFF, 0x80000000], conn_ids=[0x80000000, 0xFFFFFFFF, 0x00000001, 0x7FFFFFFF]),
}
FAULT_KINDS = ("send_err", "send_partial", "recv_err", "recv_close", "recv_trunc", "reply_lost", "send_timeout")
EVENTS = {
    "cip": ("open", "close", "gen_c", "gen_u", "gen_cu", "gen_big", "with_ok", "with_raise", "with_comm"),
    "logix_noinit": ("open", "close", "read", "write", "gen_c", "gen_u", "with_ok", "with_raise", "with_comm"),
    "logix_upload": ("open", "close", "read", "write", "gen_c", "with_ok", "with_raise", "with_comm"),
    "slc": ("open", "close", "read", "write", "gen_c", "with_ok", "with_raise", "with_comm"),
    # LogixDriver talking to a Micro800 (recognised by its product name; no backplane hop, no Unconnected Send)
    "m800": ("open", "close", "read", "write", "gen_c", "with_ok", "with_raise", "with_comm"),
}
M800_POLICIES = ("ok", "large08", "nofclose", "busy1", "nofo")


def tiny_project():
    p = Project("PT")
    u = p.add_type(layout("TinyUDT", 0x3A1, 0xAA01, [("a", "DINT", 0), ("f", "BOOL", 0)]))
    p.tag("a_dint", "DINT", instance_id=3)
    p.tag("a_udt", u, instance_id=4)
    p.tag("an_ary", "INT", (4,), instance_id=9)
    fill_image(p, 0)
    return p


class Run:
    """One replayed history."""

    def __init__(self, drv, polname):
        import pycomm3

        self.drv, self.polname = drv, polname
        if drv == "slc":
            from . import c18

            dev = c18.new_table(0)
        elif drv == "cip":
            # policies svc6 / svc8: the device answers every Identity request with a service error (6 = partial transfer, not
            # legitimate for this service; 8 = service not supported): calls must come back falsy, the lifecycle must not derail
            st = {"svc6": 6, "svc8": 8}.get(polname)
            dev = enip.IdentityDevice((lambda req, info: (st, [], b"\x01\x02\x03\x04") if req.path[:1] == [("class", 1)] else None) if st else None)
        else:
            dev = logix.LogixController(tiny_project(), "m800" if drv == "m800" else "v32")
        self.t = enip.Target(dev, enip.Policy(**POLICIES[polname]), keep_cip=False)
        self.w = net.World(self.t, io_budget=4000, refuse_tcp=(polname == "notcp"))
        self.w.__enter__()
        if drv == "cip":
            self.d = pycomm3.CIPDriver("10.0.0.1/bp/0")
        elif drv == "slc":
            self.d = pycomm3.SLCDriver("10.0.0.1")
        else:
            self.d = pycomm3.LogixDriver("10.0.0.1", init_tags=(drv == "logix_upload"))
            if drv in ("logix_noinit", "m800"):
                # without an upload read/write need definitions: provide the one tag used by the events
                from pycomm3.cip import DINT

                self.d._tags = {"a_dint": {"tag_name": "a_dint", "dim": 0, "instance_id": 3, "tag_type": "atomic", "data_type": "DINT", "data_type_name": "DINT",
                                           "type_class": DINT, "dimensions": [0, 0, 0], "alias": False, "external_access": "Read/Write"}}
        self.outcomes = []
        self.violations = []  # (clause, detail)
        self.tcp_killed = False
        self.fo_reply_lost = False
        self.entered = False
        self.last_io = 0

    def close_world(self):
        self.w.__exit__()

    def do(self, ev, fault=None):
        d, w, t = self.d, self.w, self.t
        n_ev = len(t.events)
        pre_sessions = dict(t.sessions)
        pre_orphans = len(t.orphaned)
        w.io_budget = w.io_total + 1500
        self.entered = ev == "close"
        fo_before = sum(1 for x in t.fo_log if x[2])
        w.arm({fault[0]: fault[1]} if fault else {})
        io0 = w.io_total
        if ev == "open":
            out = call(d.open)
        elif ev == "close":
            out = call(d.close)
        elif ev == "read":
            out = call(d.read, "N7:0" if self.drv == "slc" else "a_dint")
        elif ev == "write":
            out = call(d.write, ("N7:0", 5)) if self.drv == "slc" else call(d.write, "a_dint", 5)
        elif ev == "gen_c":
            out = call(d.generic_message, service=1, class_code=1, instance=1)
        elif ev == "gen_u":
            out = call(d.generic_message, service=1, class_code=1, instance=1, connected=False, unconnected_send=True)
        elif ev == "gen_big":
            # request data no frame can carry (the length fields have 16 bits): refused by the library, nothing half-sent, the lifecycle goes on
            out = call(d.generic_message, service=1, class_code=1, instance=1, request_data=bytes(70000), connected=bool(len(self.outcomes) % 2))
        elif ev == "gen_cu":
            # contradictory keywords: connected (left at its default) and the unconnected-only option together
            out = call(d.generic_message, service=1, class_code=1, instance=1, unconnected_send=True)
        elif ev == "with_ok":
            def f():
                with d:
                    self.entered = True
                    return d.generic_message(service=1, class_code=1, instance=1, connected=False, unconnected_send=(self.drv not in ("slc", "m800")), route_path=(self.drv not in ("slc", "m800")))
            out = call(f)
        elif ev == "with_raise":
            def f():
                with d:
                    self.entered = True
                    raise ValueError("user code failed")
            out = call(f)
            if out[:2] == ("foreign", "ValueError"):
                out = ("ok", "user-exception-propagated")
        elif ev == "with_comm":
            # the block does some connected work and is then left by a CommError that does not come from this driver's link
            # (user code, another driver): the target is still reachable, so the exit must close connection and session properly
            from pycomm3.exceptions import CommError

            def f():
                with d:
                    self.entered = True
                    d.generic_message(service=1, class_code=1, instance=1)
                    raise CommError("another device timed out")
            out = call(f)
            if out[:2] == ("pycomm", "CommError") and "another device" in str(out[2]):
                out = ("ok", "user-exception-propagated")
        else:
            raise AssertionError(ev)
        w.disarm()
        self.last_io = w.io_total - io0
        fired = bool(w.fault_fired) and w.fault_fired[-1][0] == (fault[0] if fault else None) and len(w.fault_fired) > getattr(self, "_fired_seen", 0)
        self._fired_seen = len(w.fault_fired)
        if fired and w.fault_fired[-1][1] != "reply_lost":
            self.tcp_killed = True  # every injected fault leaves that TCP connection unusable (reset, broken pipe, peer gone)
        if fired and sum(1 for x in t.fo_log if x[2]) > fo_before:
            self.fo_reply_lost = True  # the target opened a connection during an event whose I/O failed: the client may not know it
        if ev in ("close", "with_ok", "with_raise", "with_comm") or (ev == "open" and False):
            pass
        self.outcomes.append((ev, fault, out[0] if out[0] != "ok" else "ok"))
        # ---- invariants
        tag = f"{ev}{'+' + fault[1] if fault else ''}"
        if out[0] == "foreign":
            self.violations.append(("I3-foreign-exception", f"{tag}: {out[1]}: {out[2]}"))
        if self.polname in ("svc6", "svc8") and self.drv == "cip" and ev in ("gen_c", "gen_u", "with_ok") and out[0] == "ok" and out[1] not in (None, "user-exception-propagated") and bool(out[1]):
            self.violations.append(("I3-service-error-accepted", f"{tag}: the target answered with a service error but the call returned {out[1]!r:.80}"))
        if out[0] == "hang":
            self.violations.append(("I6-hang", f"{tag}: I/O budget exceeded"))
        for etag, detail in t.events[n_ev:]:
            if etag.startswith("C10/I1"):
                self.violations.append(("I1-" + etag[7:], f"{tag}: {detail}"))
            elif etag.startswith("C10/") and "format" in etag:
                self.violations.append(("forward-open-close-format", f"{tag}: {detail}"))
            elif etag == "C10/double-register":
                self.violations.append(("double-register", f"{tag}: {detail}"))
            elif etag in ("C09/connection-path", "C09/forward-close-route") and not fault:
                # a Forward Open / Forward Close whose connection path does not lead to the message router along the driver's route
                # is not "a later open works again": a real target refuses it
                self.violations.append(("I5-connection-path", f"{tag}: {detail}"))
        # I2: Forward Open order and sizes (per driver object = per run)
        seen_large_refused = False
        first = True
        for kind, size, accepted, sess in t.fo_log:
            if kind == "large":
                if size != 4000:
                    self.violations.append(("I2-large-size", f"{tag}: large Forward Open asks for {size} bytes"))
                if accepted is False:
                    seen_large_refused = True
            else:
                if not seen_large_refused:
                    self.violations.append(("I2-standard-before-large", f"{tag}: standard Forward Open sent although no large one was refused to this driver"))
                if size != 500:
                    self.violations.append(("I2-standard-size", f"{tag}: standard Forward Open asks for {size} bytes, not 500"))
            first = False
        # I4: after close
        if ev in ("close", "with_ok", "with_raise", "with_comm") and self.entered:
            if d.connected:
                self.violations.append(("I4-still-connected", f"{tag}: driver.connected is True after close"))
            reachable = not fired and not self.tcp_killed and self.polname not in ("notcp",)
            if reachable and out[0] in ("ok", "pycomm"):
                if t.sessions:
                    self.violations.append(("I4-session-left", f"{tag}: target still holds session(s) {[hex(s) for s in t.sessions]}"))
                if t.connections and not self.fo_reply_lost:
                    self.violations.append(("I4-connection-left", f"{tag}: target still holds connection(s) {[hex(c) for c in t.connections]}"))
                if len(t.orphaned) > pre_orphans and self.polname != "nofclose" and not self.fo_reply_lost:
                    self.violations.append(("I4-connection-not-closed", f"{tag}: a CIP connection was left open (no Forward Close) when the session ended"))
            if ev == "close" or fired is False:
                pass
            self.tcp_killed = False if not w.tcp_open else self.tcp_killed
        if not w.tcp_open:
            self.tcp_killed = False
        return out

    def canon(self, nfaults):
        d, t, w = self.d, self.t, self.w
        flags = tuple(bool(getattr(d, a, None)) for a in ("_session", "_target_is_connected", "_connection_opened")) + (getattr(d, "_sock", 0) is None,)
        try:
            ext = bool(d._cfg.get("extended forward open"))
        except Exception:  # noqa
            ext = None
        return (bool(d.connected), d.connection_size, w.tcp_open, len(t.sessions), tuple(sorted(c.size for c in t.connections.values())),
                tuple(sorted({k for k, s in t.refused})), len(t.orphaned) > 0, self.tcp_killed, self.fo_reply_lost, nfaults, flags, ext)


def replay_hist(drv, pol, hist):
    r = Run(drv, pol)
    for ev, fault in hist:
        r.do(ev, fault)
    return r


def probe_ok(drv, pol, hist):
    """I5: from the state reached by hist, close(); open(); request works (when the policy allows it)."""
    r = replay_hist(drv, pol, hist)
    base = len(r.violations)
    c = call(r.d.close)
    o = call(r.d.open)
    if r.drv in ("logix_noinit", "logix_upload", "m800"):
        q = call(r.d.read, "a_dint")
    elif r.drv == "slc":
        q = call(r.d.read, "N7:0")
    else:
        q = call(r.d.generic_message, service=1, class_code=1, instance=1)
    r.close_world()
    probs = []
    if c[0] not in ("ok", "pycomm"):
        probs.append(("I5-close", f"close -> {c!r:.100}"))
    if pol in ("ok", "large08", "large0109", "nofclose"):
        if o != ("ok", True):
            probs.append(("I5-reopen", f"open after close -> {o!r:.100}"))
        elif q[0] != "ok" or not bool(q[1]):
            probs.append(("I5-request-after-reopen", f"request after close/open -> {q!r:.120}"))
    else:
        for x, nm in ((o, "open"), (q, "request")):
            if x[0] not in ("ok", "pycomm"):
                probs.append(("I5-" + nm, f"{nm} after close -> {x!r:.100}"))
    return probs


def search(rep, drv, pol, max_depth, max_faults, kinds, frames_only=False):
    seen = set()
    frontier = deque([()])
    r0 = Run(drv, pol)
    seen.add(r0.canon(0))
    r0.close_world()
    states = 1
    trans = 0
    succ = {}

    def step(hist, ev, fault, nf, src):
        nonlocal trans, states
        r = replay_hist(drv, pol, hist)
        base = len(r.violations)
        r.do(ev, fault)
        trans += 1
        k = r.canon(nf)
        if frames_only:
            from .harness import frame_violations

            for clause, detail in frame_violations(r.w, r.t):
                rep.violation(f"histories/{clause}/{drv}", f"history {fmt(hist + ((ev, fault),))}: {detail}", {"kind": "history", "drv": drv, "pol": pol, "hist": [[e, list(f) if f else None] for e, f in hist + ((ev, fault),)]})
            rep.add("states", len(r.w.messages))
        else:
          for clause, detail in r.violations[base:]:
            rep.violation(f"{clause}/{drv}/{pol}", f"history {fmt(hist + ((ev, fault),))}: {detail}", {"drv": drv, "pol": pol, "hist": [[e, list(f) if f else None] for e, f in hist + ((ev, fault),)]})
        rep.case((drv, pol, hist, ev, fault), outcome=r.outcomes[-1][2], calls=len(hist) + 1)
        io = r.last_io
        r.close_world()
        succ.setdefault((src, ev, fault), set()).add(k)
        new = k not in seen
        if new:
            seen.add(k)
            states += 1
            for clause, detail in (probe_ok(drv, pol, hist + ((ev, fault),)) if not frames_only else ()):
                rep.violation(f"{clause}/{drv}/{pol}", f"after history {fmt(hist + ((ev, fault),))}: {detail}", {"drv": drv, "pol": pol, "hist": [[e, list(f) if f else None] for e, f in hist + ((ev, fault),)], "probe": True})
        return new, io

    while frontier:
        hist = frontier.popleft()
        if len(hist) >= max_depth:
            continue
        nf = sum(1 for _, f in hist if f)
        rs = replay_hist(drv, pol, hist)
        src = rs.canon(nf)
        rs.close_world()
        for ev in EVENTS[drv]:
            new, io = step(hist, ev, None, nf, src)
            if new:
                frontier.append(hist + ((ev, None),))
            if nf < max_faults:
                for kio in range(io):
                    for kind in kinds:
                        new, _ = step(hist, ev, (kio, kind), nf + 1, src)
                        if new:
                            frontier.append(hist + ((ev, (kio, kind)),))
    conflicts = [(s, e, f) for (s, e, f), ks in succ.items() if len(ks) > 1]
    return states, trans, conflicts


def fmt(hist):
    return "[" + ", ".join(e + (f"!{f[1]}@{f[0]}" if f else "") for e, f in hist) + "]"


def shards(tier, seed):
    return [("search", drv, pol) for drv in DRIVERS for pol in POLICIES] + [("search", "m800", pol) for pol in M800_POLICIES] + [("longrun", drv) for drv in ("cip", "logix_noinit", "slc")] + [("search", "cip", "ok", "python-O"), ("search", "logix_noinit", "large08", "python-O"), ("search", "slc", "ok", "python-O"), ("search", "logix_noinit", "ok", "debuglog"), ("search", "cip", "large08", "debuglog"), ("search", "slc", "nofclose", "debuglog")]


def describe(tier, seed):
    return {"bounds": {"depth": 4 if tier == "thorough" else 3, "faults_per_history": 2 if tier == "thorough" else 1, "fault_kinds": FAULT_KINDS, "drivers": DRIVERS, "policies": list(POLICIES)}, "exhaustive": True}


def run_longrun(rep, drv):
    """One driver object over its whole life: 66 000 connected messages spread over several open / close cycles (the sequence counter comes
    round once), then the usual questions - only library exceptions, not connected after close, nothing left at the target, open works again."""
    r = Run(drv, "ok")
    r.w.io_budget = 10**9
    bad = None
    n = 0
    for cyc in range(4):
        o = call(r.d.open)
        for i in range(16500):
            out = call(r.d.generic_message, service=1, class_code=1, instance=1) if drv == "cip" else call(r.d.read, "N7:0" if drv == "slc" else "a_dint")
            n += 1
            if out[0] != "ok" or not bool(out[1]):
                bad = (n, out)
                break
        c = call(r.d.close)
        if bad or o != ("ok", True) or c[0] != "ok" or r.d.connected or r.t.sessions or r.t.connections:
            bad = bad or (n, ("open/close", o, c, r.d.connected, len(r.t.sessions), len(r.t.connections)))
            break
    flagged = [e for e in r.t.events if e[0].startswith("C10/I1")]
    rep.case(("longrun", drv), outcome="ok" if not bad and not flagged else "bad", calls=n)
    if bad or flagged:
        rep.violation(f"long-run/{drv}", f"{drv}: connected request #{bad[0] if bad else '?'} in the life of one driver object (4 open/close cycles): {(bad[1] if bad else flagged[0])!r:.160}", {"drv": drv, "pol": "ok", "hist": [], "longrun": True})
    r.close_world()
    rep.sample({"long_run": drv, "requests": n})


def run_shard(shard, tier, seed):
    rep = Report()
    if shard[0] == "longrun":
        run_longrun(rep, shard[1])
        return rep
    _, drv, pol = shard
    depth, faults = (4, 2) if tier == "thorough" else (3, 1)
    if tier == "thorough" and drv == "logix_upload":
        depth = 3
    states, trans, conflicts = search(rep, drv, pol, depth, faults, FAULT_KINDS)
    rep.add("states", states)
    rep.add("abstraction_conflicts", len(conflicts))
    rep.sample({"driver": drv, "policy": pol, "states": states, "transitions": trans, "depth": depth, "faults": faults,
                "abstraction_conflicts": [repr(c)[:120] for c in conflicts[:2]]})
    return rep


def replay(r):
    if r.get("longrun"):
        rep = Report()
        run_longrun(rep, r["drv"])
        for s_, vs in rep.violations.items():
            print("  violates:", s_, "::", vs[0].msg[:300])
        return not rep.violations
    hist = tuple((e, tuple(f) if f else None) for e, f in r["hist"])
    run = replay_hist(r["drv"], r["pol"], hist)
    print("history :", fmt(hist), "driver", r["drv"], "policy", r["pol"])
    print("outcomes:", run.outcomes)
    print("target  : sessions", run.t.sessions, "connections", list(run.t.connections), "fo_log", run.t.fo_log, "events", run.t.events[-4:])
    probs = list(run.violations)
    run.close_world()
    if r.get("probe"):
        probs += probe_ok(r["drv"], r["pol"], hist)
    for c, d in probs:
        print("  violates:", c, "::", d)
    return not probs

"""Shared scenario corpus: fault-free runs of every request kind, re-used by the monitor-style checks
(C11 frames, C09 request paths, C04 sizes) with their own oracle over the same executions.

Each scenario is a generator function yielding (label, world, target) after it has driven the real
drivers through a family of operations; the caller inspects `target.events`, `world.messages`, ...
"""
from vmc.ref import enip, net, logix, projgen, slc
from vmc.ref.projects import fill_image
from . import logixreq as Q
from .harness import call


SEND_REGIME = None  # set by a caller that wants the whole corpus executed under short writes (see net.World.send_regime)


def _logix_world(pname, pers, conn, policy_kw=None, **kw):
    import pycomm3

    proj = projgen.build(pname, 0, **kw)
    ctl = logix.LogixController(proj, pers)
    pk = dict(large_fo="accept" if conn == 4000 else "refuse08")
    pk.update(policy_kw or {})
    t = enip.Target(ctl, enip.Policy(**pk), keep_cip=False)
    w = net.World(t, io_budget=10**9, send_regime=SEND_REGIME)
    w.__enter__()
    d = pycomm3.LogixDriver("10.0.0.1")
    return proj, ctl, t, w, d


HANDLES = [1, 0x80, 0xFF, 0x100, 0xFFFF, 0x10000, 0x7FFFFFFF, 0x80000000, 0xFFFFFFFF, 0x00FF00FF, 0x01000001]


CONN_IDS = HANDLES + [0]  # a target may grant connection id 0 (a session handle of 0 would mean "no session")


def scenarios(tier="quick"):
    """Yield (label, world, target); the world is still entered, the caller must call world.__exit__()."""
    import pycomm3

    # 1. uploads, reads, writes on every personality / connection size, with unusual handles and connection ids
    k = 0
    for pname in ("P2", "P3"):
        for pers in ("v17", "v20", "v32", "m800"):
            for conn in (4000, 500):
                k += 1
                h = HANDLES[k % len(HANDLES)]
                c = CONN_IDS[(k * 3 + 1) % len(CONN_IDS)]
                proj, ctl, t, w, d = _logix_world(pname, pers, conn, dict(session_handles=[h, h ^ 0x5A5A], conn_ids=[c, c ^ 0x0F0F]), **({"reduced": True} if pname == "P2" else {}))
                call(d.open)
                reqs = [x for x, cls in Q.read_requests(proj) if Q.read_expect(proj, x)[0] == "ok"]
                call(d.read, *reqs)
                for x in reqs[:: max(1, len(reqs) // 60)]:
                    call(d.read, x)
                # writes of every class
                from .c02 import write_cases

                seen = set()
                wl = []
                for text, value, cls in write_cases(proj, "quick"):
                    if cls not in seen and Q.write_expect(proj, text, value).ok:
                        seen.add(cls)
                        wl.append((text, value))
                        call(d.write, text, value)
                if len(wl) > 1:
                    call(d.write, *wl)
                call(d.get_plc_time)
                call(d.set_plc_time, 1_600_000_000_000_000)
                call(d.get_module_info, 2)
                call(d.close)
                yield (f"logix/{pname}/{pers}/{conn}", w, t)
    # 2. lifecycle: open / close / reopen, list_identity, discover, refused policies
    for polname, pk in (("ok", {}), ("cid0", dict(conn_ids=[0, 0xFFFFFFFF])), ("large08", dict(large_fo="refuse08")), ("large08bare", dict(large_fo="refuse08bare")), ("large0109bare", dict(large_fo="refuse0109bare")), ("nofo", dict(large_fo="refuse08", std_fo="refuse")), ("nosession", dict(session="refuse")), ("nosession_h", dict(session="refuse-with-handle")), ("nofclose", dict(fclose="refuse")),
                       ("fo_d0", dict(large_fo="refuse:d0")), ("fo_20", dict(large_fo="refuse:20", std_fo="refuse:20")), ("fo_2a", dict(large_fo="refuse:2a", std_fo="refuse:2a"))):
        t = enip.Target(enip.IdentityDevice(), enip.Policy(**pk), keep_cip=False)
        w = net.World(t, io_budget=10**7, send_regime=SEND_REGIME)
        w.__enter__()
        d = pycomm3.CIPDriver("10.0.0.1/bp/1/enet/10.11.12.13/bp/0")
        for _ in range(2):
            call(d.open)
            call(d.generic_message, service=1, class_code=1, instance=1)
            call(d.generic_message, service=1, class_code=1, instance=1, connected=False, unconnected_send=True)
            call(d.close)
        call(pycomm3.CIPDriver.list_identity, "10.0.0.1")
        call(pycomm3.CIPDriver.discover)
        yield (f"lifecycle/{polname}", w, t)
    # 2b. drivers derived by an application (short, long and non-ASCII class names; a subclass that sets its own attributes): same frames
    class PLC(pycomm3.CIPDriver):
        pass

    class ApplicationSpecificLineControllerDriver(pycomm3.CIPDriver):
        def __init__(self, path, *a, **k):
            super().__init__(path, *a, **k)
            self.line = 7

    Umlaut = type("Stra\u00dfenSPS", (pycomm3.CIPDriver,), {})
    for cls_ in (PLC, ApplicationSpecificLineControllerDriver, Umlaut):
        t = enip.Target(enip.IdentityDevice(), enip.Policy(), keep_cip=False)
        w = net.World(t, io_budget=10**7, send_regime=SEND_REGIME)
        w.__enter__()
        d = cls_("10.0.0.1/bp/2")
        call(d.open)
        call(d.generic_message, service=1, class_code=1, instance=1)
        call(d.generic_message, service=1, class_code=1, instance=1, connected=False, unconnected_send=True)
        call(d.close)
        call(cls_.list_identity, "10.0.0.1")
        yield (f"subclass/{len(cls_.__name__)}-char-name", w, t)
    # 3. SLC reads and writes
    from . import c18

    dev = c18.new_table(0)
    t = enip.Target(dev, keep_cip=False)
    w = net.World(t, io_budget=10**7, send_regime=SEND_REGIME)
    w.__enter__()
    d = pycomm3.SLCDriver("10.0.0.1/bp/3")
    call(d.open)
    for text in ("N7:0", "N7:255", "N255:3{5}", "B3/100", "F8:1{3}", "L11:2", "S:1/3", "I:1.0", "O:2/5", "T4:1.ACC", "C5:0.DN"):
        call(d.read, text)
    for text, v in (("N7:0", 5), ("N9:3{3}", [1, 2, 3]), ("B3/17", True), ("F8:2", 1.5), ("L11:0", 70000), ("N7:1/3", False)):
        call(d.write, (text, v))
    call(d.get_processor_type)
    call(d.close)
    yield ("slc", w, t)

"""C09 — emitted CIP paths denote the addressed object (E3 with an independent strict EPATH parser)."""
import itertools

from vmc.core.report import Report
from vmc.ref import epath as E

META = {
    "rule": "logical segments: every logical type x every value 0..65535 plus 32-bit boundary/bit-pattern values, as int and as "
    "1/2/4-byte bytes, padded and packed; request_path over the cross product of boundary class/instance/attribute values; "
    "tag_request_path over the tag grammar (name lengths, 0-3 indices per level around the 8/16-bit boundaries, 0-3 member "
    "levels, program scope, symbolic and 8/16/32-bit symbol-instance addressing); port segments for ports 1..14, every "
    "alias, larger numbers, links 0..255, numeric strings, dotted quads of every length class; symbolic data segments. "
    "Whole uploads (P1/P2/P3/P4 on v20/v32/Micro800): every request path as parsed by the target denotes an object of the project, the Forward Open and Forward Close "
    "connection paths are the driver's route. Route histories on a live driver (shared with C14): after every sequence of 2 (thorough 3) helper operations the Unconnected Send route "
    "and the Forward Open connection path must still denote the configured route. Every emitted path is parsed by vmc/ref/epath.py and must yield exactly the intended segments. distinct = distinct input.",
    "explanation": "bounded-exhaustive enumeration, one path-builder call per case",
    "assumptions": [
        "the parser accepts any logical format wide enough for the value (minimal width is not demanded)",
        "32-bit logical values are accepted for every logical type (Logix uses them for members)",
        "port aliases and their numbers: backplane/bp=1, enet/dnet/cnet/dhrio-a/dh485-a=2, dhrio-b/dh485-b=3 (docs)",
        "IPv6 link addresses and upper-case aliases are outside the documented grammar",
    ],
}

LTYPES = {"class_id": "class", "instance_id": "instance", "member_id": "member", "connection_point": "cpoint",
          "attribute_id": "attribute", "special": "special", "service_id": "service"}
ALIASES = {"backplane": 1, "bp": 1, "enet": 2, "dhrio-a": 2, "dhrio-b": 3, "dnet": 2, "cnet": 2, "dh485-a": 2, "dh485-b": 3}


def b32_values():
    s = set()
    for k in (8, 16, 24, 31, 32):
        for d in (-2, -1, 0, 1, 2):
            v = (1 << k) + d
            if 0 <= v <= 0xFFFFFFFF:
                s.add(v)
    s |= {0x12345678, 0x00FF00FF, 0xFF00FF00, 0x80000000, 0x7FFFFFFF, 0x01000000, 0x00010000, 0xA5A5A5A5, 0xFFFFFFFF, 0x00FFFFFF, 0x0100FFFF}
    for i in range(4):
        s.add(0xFF << (8 * i))
        s.add(0xFFFFFFFF ^ (0xFF << (8 * i)))
    return sorted(s)


def shards(tier, seed):
    sh = [("logical", t, lo) for t in LTYPES for lo in range(0, 65536, 8192)]
    sh += [("logical32", t) for t in LTYPES]
    sh += [("reqpath",), ("ports",), ("symbols",), ("epathopts",), ("seghist",), ("longpath",)]
    sh += [("tags", i) for i in range(16)]
    sh += [("route-history", i) for i in range(3)]
    sh += [("upload-paths", pn, pers) for pn in ("P3", "P4", "P2") for pers in ("v20", "v32")] + [("upload-paths", "P3", "m800"), ("upload-paths", "P1", "m800")]
    sh += [("driver-paths", pn, pers) for pn in ("P1", "P3", "P2") for pers in ("v20", "v21", "v32")] + [("driver-paths", "P1", "m800"), ("driver-paths", "P1", "v17")]
    sh += [("tags", 3, "debuglog"), ("route-history", 0, "debuglog"), ("upload-paths", "P3", "v20", "debuglog"), ("reqpath", "debuglog")]
    return sh


def describe(tier, seed):
    return {"bounds": {"logical_values": "0..65535 exhaustive + %d 32-bit values" % len(b32_values()), "tag_member_levels": 3 if tier == "thorough" else 2}, "exhaustive": True}


def _enc(f, *a, **k):
    from pycomm3.exceptions import DataError

    try:
        return ("ok", bytes(f(*a, **k)))
    except DataError as e:
        return ("dataerror", str(e)[:60])
    except Exception as e:  # noqa
        return ("foreign", type(e).__name__, str(e)[:60])


def _parse(buf, padded=True, counted=False, pad_after=False):
    try:
        if counted:
            return ("ok", E.parse_counted(buf, pad_after))
        return ("ok", E.parse(buf, padded))
    except E.EPathError as e:
        return ("bad", str(e))


def width_class(v):
    return "8bit" if v <= 0xFF else "16bit" if v <= 0xFFFF else "32bit"


def check_logical(rep, ltype, values, forms=("int",)):
    import pycomm3.cip as C

    kind = LTYPES[ltype]
    for v in values:
        for form in forms:
            if form == "int":
                arg = v
            else:
                w = int(form[-1])
                if v >= 1 << (8 * w):
                    continue
                arg = v.to_bytes(w, "little")
            for padded in (True, False):
                ep = C.PADDED_EPATH if padded else C.PACKED_EPATH
                r = _enc(ep.encode, [C.LogicalSegment(arg, ltype)])
                p = _parse(r[1], padded) if r[0] == "ok" else None
                ok = r[0] == "ok" and p == ("ok", [(kind, v)])
                rep.case(("logical", ltype, v, form, padded), outcome="ok" if ok else "bad")
                if not ok:
                    wc = width_class(v) if form == "int" else form
                    rep.violation(f"logical-segment/{wc}/{'padded' if padded else 'packed'}",
                                  f"LogicalSegment({arg!r}, {ltype!r}) {'padded' if padded else 'packed'} -> {r[1].hex() if r[0]=='ok' else r!r}; parser: {p!r:.120}; intended {(kind, v)!r}",
                                  {"kind": "logical", "ltype": ltype, "value": v, "form": form, "padded": padded})
    # out-of-range values must not produce bytes
    for bad in (0x1_0000_0000, -1, 1 << 40, b"", b"\x01\x02\x03", b"\x01\x02\x03\x04\x05"):
        r = _enc(C.PADDED_EPATH.encode, [C.LogicalSegment(bad, ltype)])
        rep.case(("logical-bad", ltype, repr(bad)), outcome=r[0])
        if r[0] != "dataerror":
            rep.violation("logical-segment/out-of-range", f"LogicalSegment({bad!r}, {ltype!r}) -> {r!r:.100} (must raise DataError)",
                          {"kind": "logical-bad", "ltype": ltype, "value": repr(bad)})


def idvals():
    return [0, 1, 0x6B, 0xFF, 0x100, 0x1234, 0xFFFF, 0x10000, 0x123456, 0xFFFFFFFF]


def as_forms(v):
    out = [v]
    for w in (1, 2, 4):
        if v < 1 << (8 * w):
            out.append(v.to_bytes(w, "little"))
    return out


def check_reqpath(rep):
    from pycomm3.packets.util import request_path

    for c, i in itertools.product(idvals(), idvals()):
        for cf in as_forms(c):
            for inf in as_forms(i):
                for a in (None, 1, 7, 0xFF, 0x100, 0xFFFF, 0x10000, b"\x00", b"\x05", b"\x05\x00"):
                    want = [("class", c), ("instance", i)]
                    if a is None:
                        r = _enc(request_path, cf, inf)
                    else:
                        r = _enc(request_path, cf, inf, a)
                        want.append(("attribute", a if isinstance(a, int) else int.from_bytes(a, "little")))
                    p = _parse(r[1], counted=True) if r[0] == "ok" else None
                    ok = p == ("ok", want)
                    rep.case(("reqpath", repr(cf), repr(inf), repr(a)), outcome="ok" if ok else "bad")
                    if not ok:
                        wc = max(width_class(c), width_class(i), key=lambda s: int(s[:-3]))
                        rep.violation(f"request-path/{wc}", f"request_path({cf!r}, {inf!r}, {a!r}) -> {r[1].hex() if r[0]=='ok' else r!r}; parser {p!r:.120}; intended {want!r}",
                                      {"kind": "reqpath", "c": repr(cf), "i": repr(inf), "a": repr(a)})
    rep.sample({"request_path": "class x instance x attribute boundary product"})


def ipstrings():
    out = []
    for a, b, c, d in [(1, 2, 3, 4), (10, 2, 3, 4), (10, 20, 3, 4), (10, 20, 30, 4), (10, 20, 30, 40), (100, 20, 30, 40), (100, 200, 30, 40),
                       (100, 200, 130, 40), (100, 200, 130, 140), (192, 168, 1, 1), (255, 255, 255, 255), (0, 0, 0, 0), (127, 0, 0, 1)]:
        out.append(f"{a}.{b}.{c}.{d}")
    return out


def check_ports(rep):
    import pycomm3.cip as C

    ports = [(n, n) for n in range(1, 15)] + [(a, n) for a, n in ALIASES.items()]
    links = [(n, bytes([n])) for n in range(256)] + [(str(n), bytes([n])) for n in range(256)] + [(ip, ip.encode()) for ip in ipstrings()]
    links += [(b"\x07", b"\x07"), (b"\x01\x02", b"\x01\x02"), (b"abc", b"abc"), (b"\x01\x02\x03\x04", b"\x01\x02\x03\x04")]
    for (parg, pno) in ports:
        for (larg, lbytes) in links:
            for opts in ((False, False), (True, False), (True, True)):
                r = _enc(C.PADDED_EPATH.encode, [C.PortSegment(parg, larg)], length=opts[0], pad_length=opts[1])
                p = _parse(r[1], counted=opts[0], pad_after=opts[1]) if r[0] == "ok" else None
                ok = p == ("ok", [("port", pno, lbytes)])
                rep.case(("port", parg, larg if not isinstance(larg, bytes) else larg.hex(), opts), outcome="ok" if ok else "bad")
                if not ok:
                    lc = "ip" if len(lbytes) > 4 else f"link{len(lbytes)}"
                    rep.violation(f"port-segment/{lc}", f"PortSegment({parg!r}, {larg!r}) length={opts[0]} pad_length={opts[1]} -> {r[1].hex() if r[0]=='ok' else r!r}; parser {p!r:.100}; intended port {pno} link {lbytes!r}",
                                  {"kind": "port", "port": parg, "link": larg if not isinstance(larg, bytes) else {"hex": larg.hex()}})
    # port numbers that do not fit the 4-bit field: extended port encoding or DataError, never a different route
    for pno in (15, 16, 17, 31, 100, 255, 65535):
        for larg, lbytes in ((1, b"\x01"), ("10.20.30.40", b"10.20.30.40")):
            r = _enc(C.PADDED_EPATH.encode, [C.PortSegment(pno, larg)])
            p = _parse(r[1]) if r[0] == "ok" else None
            ok = r[0] == "dataerror" or p == ("ok", [("port", pno, lbytes)])
            rep.case(("bigport", pno, larg), outcome="ok" if ok else "bad")
            if not ok:
                rep.violation("port-segment/port-number-above-14", f"PortSegment({pno}, {larg!r}) -> {r[1].hex() if r[0]=='ok' else r!r}; parser {p!r:.100} (port {pno} needs the extended port form or an error)",
                              {"kind": "bigport", "port": pno, "link": larg})
    # invalid links
    for larg in (256, -1, "256", "1.2.3", "300.1.1.1", "abc", ""):
        r = _enc(C.PADDED_EPATH.encode, [C.PortSegment(1, larg)])
        rep.case(("badlink", repr(larg)), outcome=r[0])
        if r[0] != "dataerror":
            rep.violation("port-segment/invalid-link", f"PortSegment(1, {larg!r}) -> {r!r:.100} (must raise DataError)", {"kind": "badlink", "link": repr(larg)})
    for parg in ("nope", "BP ", ""):
        r = _enc(C.PADDED_EPATH.encode, [C.PortSegment(parg, 1)])
        rep.case(("badport", repr(parg)), outcome=r[0])
        if r[0] != "dataerror":
            rep.violation("port-segment/unknown-alias", f"PortSegment({parg!r}, 1) -> {r!r:.100} (must raise DataError)", {"kind": "badport", "port": parg})
    rep.sample({"ports": len(ports), "links": len(links)})


def names(lengths):
    base = "Ab_cD3fgH1jklmnopQrstuvwxyz0123456789ABCDEFG"
    return [base[:n] for n in lengths]


def check_symbols(rep):
    import pycomm3.cip as C

    for n in range(1, 41):
        for name in (("x" * n), names([n])[0], "Program:" + "p" * n):
            if len(name) > 255:
                continue
            r = _enc(C.PADDED_EPATH.encode, [C.DataSegment(name)], length=True)
            p = _parse(r[1], counted=True) if r[0] == "ok" else None
            ok = p == ("ok", [("symbol", name)])
            rep.case(("symbol", name), outcome="ok" if ok else "bad")
            if not ok:
                rep.violation(f"symbolic-segment/{'odd' if len(name) % 2 else 'even'}", f"DataSegment({name!r}) -> {r[1].hex() if r[0]=='ok' else r!r}; parser {p!r:.100}",
                              {"kind": "symbol", "name": name})
    # simple data segments (0x80): size is in 16-bit words
    for data in (b"\x01\x02", b"\x01\x02\x03\x04", b"abcdef"):
        r = _enc(C.PADDED_EPATH.encode, [C.DataSegment(data)])
        p = _parse(r[1]) if r[0] == "ok" else None
        ok = p == ("ok", [("data", data)])
        rep.case(("simpledata", data), outcome="ok" if ok else "bad")
        if not ok:
            rep.violation("simple-data-segment/size-in-words", f"DataSegment({data!r}) -> {r[1].hex() if r[0]=='ok' else r!r}; parser {p!r:.100} (the size field of a simple data segment counts 16-bit words)",
                          {"kind": "simpledata", "data": data})


def check_epathopts(rep):
    """Several segments in one path; word count and pad byte options."""
    import pycomm3.cip as C

    combos = []
    for c in (1, 0x100, 0x10000):
        for i in (1, 0x100, 0x10000):
            combos.append(([C.PortSegment("bp", 3), C.PortSegment("enet", "10.2.3.4"), C.LogicalSegment(c, "class_id"), C.LogicalSegment(i, "instance_id")],
                           [("port", 1, b"\x03"), ("port", 2, b"10.2.3.4"), ("class", c), ("instance", i)]))
            combos.append(([C.DataSegment("abc"), C.LogicalSegment(i, "member_id"), C.DataSegment("de"), C.LogicalSegment(c, "member_id")],
                           [("symbol", "abc"), ("member", i), ("symbol", "de"), ("member", c)]))
    for segs, want in combos:
        for opts in ((False, False), (True, False), (True, True)):
            r = _enc(C.PADDED_EPATH.encode, segs, length=opts[0], pad_length=opts[1])
            p = _parse(r[1], counted=opts[0], pad_after=opts[1]) if r[0] == "ok" else None
            ok = p == ("ok", want)
            rep.case(("epathopts", repr(want), opts), outcome="ok" if ok else "bad")
            if not ok:
                rep.violation("epath/word-count-or-pad", f"PADDED_EPATH.encode({want!r}, length={opts[0]}, pad_length={opts[1]}) -> {r[1].hex() if r[0]=='ok' else r!r}; parser {p!r:.100}",
                              {"kind": "epathopts", "want": repr(want), "opts": list(opts)})
        # the segments in any kind of iterable (a sequence is not required: one-shot iterators and views give the same path), and mixed
        # with pre-encoded bytes
        for cname, mk in (("tuple", tuple), ("generator", lambda s: (x for x in s)), ("iter", iter), ("map", lambda s: map(lambda x: x, s)), ("dict-values", lambda s: {i: x for i, x in enumerate(s)}.values()),
                          ("bytes-first", lambda s: [E.build(want[:1])] + list(s[1:])), ("bytes-first-generator", lambda s: (x for x in [E.build(want[:1])] + list(s[1:])))):
            r = _enc(C.PADDED_EPATH.encode, mk(segs), length=True)
            p = _parse(r[1], counted=True) if r[0] == "ok" else None
            ok = p == ("ok", want)
            rep.case(("epathiter", cname, repr(want)), outcome="ok" if ok else "bad")
            if not ok:
                rep.violation(f"epath/segments-container/{cname}", f"PADDED_EPATH.encode(<{cname} of the segments {want!r}>, length=True) -> {r[1].hex() if r[0]=='ok' else r!r}; parser {p!r:.100}", {"kind": "epathopts", "want": repr(want), "opts": [cname]})
        # path types derived by an application keep the padding rule of the type they derive from (old-style `padded = True` included)
        derived = (("subclass-of-PADDED_EPATH", type("RequestPath", (C.PADDED_EPATH,), {}), C.PADDED_EPATH), ("subclass-of-PACKED_EPATH", type("Packed2", (C.PACKED_EPATH,), {}), C.PACKED_EPATH),
                   ("EPATH-with-padded-True", type("OldStyle", (C.EPATH,), {"padded": True}), C.PADDED_EPATH), ("sub-subclass", type("Deeper", (type("Mid", (C.PADDED_EPATH,), {}),), {}), C.PADDED_EPATH))
        for dname, sub, parent in derived:
            r1, r2 = _enc(sub.encode, segs, length=True), _enc(parent.encode, segs, length=True)
            rep.case(("epathsub", dname, repr(want)), outcome="ok" if r1 == r2 else "bad")
            if r1 != r2:
                rep.violation(f"epath/derived-type/{dname}", f"{dname}.encode({want!r}, length=True) -> {r1[1].hex() if r1[0] == 'ok' else r1!r}, its parent type gives {r2[1].hex() if r2[0] == 'ok' else r2!r}", {"kind": "epathopts", "want": repr(want), "opts": [dname]})
        # already-encoded bytes pass through
        pre = E.build(want)
        r = _enc(C.PADDED_EPATH.encode, [pre[:2], pre[2:]], length=True)
        p = _parse(r[1], counted=True) if r[0] == "ok" else None
        rep.case(("epathbytes", repr(want)), outcome="ok" if p == ("ok", want) else "bad")
        if p != ("ok", want):
            rep.violation("epath/bytes-passthrough", f"PADDED_EPATH.encode(pre-encoded bytes) -> {r!r:.100}; parser {p!r:.100}", {"kind": "epathbytes", "want": repr(want)})


def check_long_paths(rep):
    """Paths at and beyond what the one-byte word count can say (255 words): every path the encoder returns parses back to the segments,
    the others are refused with DataError - never a wrapped count."""
    import pycomm3.cip as C
    from pycomm3.packets.util import tag_request_path

    for words in (250, 254, 255, 256, 257, 300, 511, 512):
        forms = {
            "members": ([C.DataSegment("t")] + [C.LogicalSegment(7, "member_id")] * (words - 2), [("symbol", "t")] + [("member", 7)] * (words - 2)),
            "symbols": ([C.DataSegment("abcd")] * (words // 3) + [C.LogicalSegment(1, "member_id")] * (words % 3), [("symbol", "abcd")] * (words // 3) + [("member", 1)] * (words % 3)),
            "hops": ([C.PortSegment("bp", 1)] * words, [("port", 1, b"\x01")] * words),
        }
        for fname, (segs, want) in forms.items():
            r = _enc(C.PADDED_EPATH.encode, segs, length=True)
            if r[0] == "ok":
                p = _parse(r[1], counted=True)
                ok = p == ("ok", want)
            else:
                ok = r[0] == "dataerror" and words > 255
            rep.case(("longpath", fname, words), outcome=r[0] if ok else "bad")
            if not ok:
                rep.violation(f"epath/long-path/{'accepted' if r[0] == 'ok' else r[0]}", f"PADDED_EPATH.encode({words} words of {fname}, length=True) -> {(r[1][:8].hex() + '…') if r[0] == 'ok' else r!r}: " + ("does not parse back to the segments (count byte vs bytes that follow)" if r[0] == "ok" else "a path that fits was refused"),
                              {"kind": "longpath"})
    # the same through a tag request: 13 nested 40-character names
    for depth in (5, 12, 13, 14, 30):
        tag = ".".join(["n" * 40] * depth)
        r = _enc(lambda: tag_request_path(tag, {"instance_id": 5}, False) or b"")
        ok = (r[0] == "ok" and _parse(r[1], counted=True) == ("ok", E.tag_segments(tag))) or (r[0] != "ok" and r[0] != "foreign" and depth * 21 > 255) or (r[0] == "ok" and r[1] == b"" and depth * 21 > 255)
        rep.case(("longtag", depth), outcome=r[0] if ok else "bad")
        if not ok:
            rep.violation("epath/long-path/tag", f"tag_request_path of {depth} nested 40-character names -> {(r[1][:8].hex() + '…') if r[0] == 'ok' else r!r}: neither the intended path nor a refusal", {"kind": "longpath"})


def check_segment_histories(rep):
    """E2 on segment OBJECTS: one segment encoded several times (packed then padded and the other way round, alone and inside paths), copied,
    and given another value between two encodings - every encoding is that of a fresh segment with the current values."""
    import copy
    import pycomm3.cip as C

    def fresh(mk, padded):
        return _enc((C.PADDED_EPATH if padded else C.PACKED_EPATH).encode, [mk()], length=True)

    makers = []
    for lt in LTYPES:
        for v in (1, 0xFF, 0x100, 0xFFFF, 0x10000):
            makers.append((f"LogicalSegment({v:#x},{lt})", lambda v=v, lt=lt: C.LogicalSegment(v, lt), ("logical_value", 0x1234 if v != 0x1234 else 7)))
    for port, link in (("bp", 3), (2, "10.2.3.4"), ("enet", "192.168.100.200"), (20, 5)):
        makers.append((f"PortSegment({port!r},{link!r})", lambda port=port, link=link: C.PortSegment(port, link), ("link_address", 9)))
    makers.append(("DataSegment('abc')", lambda: C.DataSegment("abc"), ("data", "wxyz")))
    for label, mk, (attr, newval) in makers:
        for order in ((False, True), (True, False), (True, True, False), (False, False, True)):
            seg = mk()
            probs = []
            for padded in order:
                got = _enc((C.PADDED_EPATH if padded else C.PACKED_EPATH).encode, [seg], length=True)
                if got != fresh(mk, padded):
                    probs.append(f"encoded {'padded' if padded else 'packed'} after {order!r}: {got[1].hex() if got[0] == 'ok' else got!r}, a fresh segment gives {fresh(mk, padded)[1].hex() if fresh(mk, padded)[0] == 'ok' else fresh(mk, padded)!r}")
                    break
            rep.case(("seghist", label, order), outcome="ok" if not probs else "bad")
            for p_ in probs:
                rep.violation("segment-history/encoded-twice", f"{label}: {p_}", {"kind": "seghist"})
        # a copy, and the same object with another value
        seg = mk()
        _enc(C.PADDED_EPATH.encode, [seg], length=True)
        for how in ("copy", "same-object"):
            s2 = copy.copy(seg) if how == "copy" else seg
            if not hasattr(s2, attr):
                continue
            setattr(s2, attr, newval)
            ref = mk()
            setattr(ref, attr, newval)
            got, want = _enc(C.PADDED_EPATH.encode, [s2], length=True), _enc(C.PADDED_EPATH.encode, [ref], length=True)
            rep.case(("segmut", label, how), outcome="ok" if got == want else "bad")
            if got != want:
                rep.violation(f"segment-history/value-changed/{how}", f"{label}: {attr} set to {newval!r} on {'a copy of an' if how == 'copy' else 'the'} already encoded segment: encodes as {got[1].hex() if got[0] == 'ok' else got!r}, a fresh segment with that value as {want[1].hex() if want[0] == 'ok' else want!r}", {"kind": "seghist"})


def tag_cases(tier):
    base_lens = [1, 2, 3, 8, 39, 40]
    one = [0, 1, 255, 256, 65535, 65536]
    idx = [()] + [(a,) for a in one] + [(a, b) for a in (0, 255, 256, 65536) for b in (0, 255, 256, 65536)] + \
          [(a, b, c) for a in (1, 256, 65536) for b in (1, 256, 65536) for c in (1, 256, 65536)]
    mem_names = names([1, 2, 5])
    mem_idx = [(), (0,), (256,)]
    levels = 3 if tier == "thorough" else 2
    members = [()]
    per = [(n, i) for n in mem_names for i in mem_idx]
    for depth in range(1, levels + 1):
        members += list(itertools.product(per, repeat=depth))
    addressing = [("symbolic", None), ("id8", 0x2A), ("id16", 0x1234), ("id32", 0x12345), ("program", None)]
    for bl in base_lens:
        bname = names([bl])[0]
        for ix in idx:
            for mem in members:
                for mode, iid in addressing:
                    yield bname, ix, mem, mode, iid


def fmt_tag(bname, ix, mem, mode):
    def brk(t):
        return "[" + ",".join(str(x) for x in t) + "]" if t else ""
    s = bname + brk(ix)
    for n, i in mem:
        s += "." + n + brk(i)
    if mode == "program":
        s = "Program:MainProgram." + s
    return s


def check_tags(rep, part, tier):
    from pycomm3.packets.util import tag_request_path

    for k, (bname, ix, mem, mode, iid) in enumerate(tag_cases(tier)):
        if k % 16 != part:
            continue
        tag = fmt_tag(bname, ix, mem, mode)
        info = {"instance_id": iid} if iid is not None else {"instance_id": 0x77}
        use_ids = mode.startswith("id")
        want = E.tag_segments(tag, iid if use_ids else None)
        r = _enc(lambda: tag_request_path(tag, info, use_ids) or b"")
        p = _parse(r[1], counted=True) if r[0] == "ok" and r[1] else None
        ok = p == ("ok", want)
        rep.case(("tag", tag, mode), outcome="ok" if ok else "bad")
        if not ok:
            mx = max([0] + list(ix) + [x for _, i in mem for x in i] + ([iid] if use_ids else []))
            rep.violation(f"tag-path/{mode}/{width_class(mx)}", f"tag_request_path({tag!r}, instance ids {'on' if use_ids else 'off'}) -> {r[1].hex() if r[0]=='ok' else r!r}; parser {p!r:.140}; intended {want!r:.140}",
                          {"kind": "tag", "tag": tag, "mode": mode, "iid": iid})
        elif k % 5000 == part:
            rep.sample({"tag": tag, "mode": mode, "path": r[1].hex()})


def check_upload_paths(rep, pn, pers, page=0):
    """The request paths of a whole tag-list / template upload, as parsed by the target's strict parser, denote objects of
    the project: symbol class (optionally inside 'Program:<name>' for every program of the project, names of odd and even
    length) and template instances that exist."""
    import pycomm3
    from vmc.ref import logix, net, projgen
    from .harness import call, make_target

    proj = projgen.build(pn, 0)
    progs = {t.name for t in proj.symbols if t.kind == "program"}
    tids = set(proj.types)
    ctl = logix.LogixController(proj, pers)
    ctl.force_page = page
    t = make_target(ctl)
    with net.World(t, io_budget=10**8):
        d = pycomm3.LogixDriver("10.0.0.1")
        n_ev = len(t.events)
        o = call(d.open)
        asked = set()
        for e in t.cip_log:
            path = [tuple(x) for x in e["path"]]
            svc = e["service"]
            bad = None
            if svc == 0x55:
                scope = [x for x in path if x[0] == "symbol"]
                rest = [x for x in path if x[0] != "symbol"]
                if len(scope) > 1 or (scope and path[0] != scope[0]) or (scope and scope[0][1] not in progs):
                    bad = f"scope {scope!r} is not a program of the project {sorted(progs)}"
                elif len(rest) != 2 or rest[0] != ("class", 0x6B) or rest[1][0] != "instance":
                    bad = "not an instance of the symbol class"
                asked.add(scope[0][1] if scope else None)
                # a continuation (start instance > 0) must ask for instances of the scope it continues: the instance it names exists there or lies behind its last
                if not bad and rest[1][1] > 0:
                    syms = proj.programs.get(scope[0][1][len("Program:"):], []) if scope else proj.symbols
                    ids = sorted(s_.instance_id for s_ in syms)
                    if rest[1][1] - 1 not in ids:
                        bad = f"continuation from instance {rest[1][1]} in scope {scope[0][1] if scope else 'controller'}: the previous reply of that scope cannot have ended at instance {rest[1][1] - 1} (instances there: {ids[:8]}…)"
            elif path[:1] == [("class", 0x6C)]:
                if len(path) != 2 or path[1][0] != "instance" or path[1][1] not in tids:
                    bad = f"template instance {path[1:]!r} does not exist"
            rep.case(("upload-path", pn, pers, page, svc, tuple(path)), outcome="ok" if not bad else "bad")
            if bad:
                rep.violation("upload/request-path", f"{pn}/{pers}: service {svc:#04x} path {path!r} (raw {e['raw_path'].hex()}): {bad}", {"kind": "upload-paths", "project": pn, "pers": pers})
        for tag, detail in t.events[n_ev:]:
            if tag.startswith("C09"):
                rep.violation("upload/target-flagged", f"{pn}/{pers}: {tag}: {detail}", {"kind": "upload-paths", "project": pn, "pers": pers})
        # the connection path of the Forward Open is the driver's route: backplane slot 0 by default, nothing for a Micro800
        want_route = [] if pers == "m800" else [(1, b"\x00")]
        for c in t.connections.values():
            if list(c.route) != want_route:
                rep.violation("upload/forward-open-route", f"{pn}/{pers}: Forward Open connection path routes along {list(c.route)!r}, the driver's route is {want_route!r}", {"kind": "upload-paths", "project": pn, "pers": pers})
        if page:
            # with a fixed number of symbols per reply the whole request sequence is determined: per scope, start instances 0, last+1, last'+1, ...
            want_seq = []
            for scope_name, syms in [(None, proj.symbols)] + [("Program:" + pnm, lst) for pnm, lst in proj.programs.items() if "Program:" + pnm in progs]:
                ids = sorted(s_.instance_id for s_ in syms)
                start, i = 0, 0
                while True:
                    want_seq.append((scope_name, start))
                    chunk = [x for x in ids if x >= start][:page]
                    rest_ids = [x for x in ids if x >= start][page:]
                    if not rest_ids:
                        break
                    start = chunk[-1] + 1
            got_seq = []
            for e in t.cip_log:
                if e["service"] == 0x55:
                    pth = [tuple(x) for x in e["path"]]
                    sc = [x[1] for x in pth if x[0] == "symbol"]
                    inst = [x[1] for x in pth if x[0] == "instance"]
                    got_seq.append((sc[0] if sc else None, inst[0] if inst else None))
            if sorted(map(str, got_seq)) != sorted(map(str, want_seq)):
                extra = [x for x in got_seq if x not in want_seq][:3]
                lack = [x for x in want_seq if x not in got_seq][:3]
                rep.violation("upload/continuation-scope", f"{pn}/{pers}, {page} symbol(s) per reply: symbol-list requests (scope, start instance) not asked as the replies demand: unexpected {extra!r}, never asked {lack!r}",
                              {"kind": "upload-paths", "project": pn, "pers": pers})
        missing = (progs | {None}) - asked
        if o != ("ok", True) or missing:
            rep.violation("upload/scope-not-addressed", f"{pn}/{pers}: open() -> {o!r:.80}; scopes never addressed: {sorted(map(str, missing))}", {"kind": "upload-paths", "project": pn, "pers": pers})
        n_ev2 = len(t.events)
        call(d.close)
        for tag, detail in t.events[n_ev2:]:
            if tag.startswith("C09"):
                rep.violation("upload/target-flagged", f"{pn}/{pers}: {tag}: {detail}", {"kind": "upload-paths", "project": pn, "pers": pers})
    rep.sample({"upload_paths": pn, "personality": pers, "programs": sorted(progs)})


DRIVER_CASES = {
    # (operation, tag as the application writes it, value for writes, the element the tag services must address)
    "P1": [
        ("read", "dint_s", None, "dint_s"), ("write", "dint_s", 77, "dint_s"), ("write", "dint_s.3", True, "dint_s"), ("read", "dint_s.31", None, "dint_s"),
        ("read", "dint_ary[2]", None, "dint_ary[2]"), ("read", "dint_ary{6}", None, "dint_ary"), ("write", "dint_ary[1]{3}", [1, 2, 3], "dint_ary[1]"),
        ("read", "d2[1,2]", None, "d2[1,2]"), ("write", "d2[2,3]", 9, "d2[2,3]"), ("read", "i3[1,2,3]", None, "i3[1,2,3]"), ("write", "i3[0,1,2]{4}", [1, 2, 3, 4], "i3[0,1,2]"),
        # BOOL arrays live in 32-bit words: element i is bit i % 32 of word i // 32
        # (a read may fetch the words from the start of the array and pick the bit: both word 0 and word i // 32 address the element)
        ("read", "bools96[5]", None, "bools96[0]"), ("read", "bools96[40]", None, "bools96[1]|bools96[0]"), ("read", "bools96[95]", None, "bools96[2]|bools96[0]"),
        ("write", "bools96[5]", True, "bools96[0]"), ("write", "bools96[40]", True, "bools96[1]"), ("write", "bools96[70]", False, "bools96[2]"),
        ("write", "bools96[32]{32}", [bool(i % 3) for i in range(32)], "bools96[1]"), ("write", "bools96[64]{32}", [bool(i % 2) for i in range(32)], "bools96[2]"),
        ("read", "bools96[32]{64}", None, "bools96[1]|bools96[0]"), ("read", "bools32[31]", None, "bools32[0]"),
        ("read", "a_tag_name_of_exactly_forty_characters__", None, "a_tag_name_of_exactly_forty_characters__"), ("read", "X[16]", None, "X[16]"), ("read", "odd", None, "odd"),
        # transfers too large for one packet: every fragment addresses the same element
        ("read", "big_sint{9000}", None, "big_sint"), ("write", "big_sint{9000}", [i % 100 for i in range(9000)], "big_sint"),
        ("read", "big_lint{700}", None, "big_lint"), ("write", "big_lint{700}", list(range(700)), "big_lint"), ("write", "big_sint[100]{8000}", [i % 50 for i in range(8000)], "big_sint[100]"),
        ("read", "even_name[299]", None, "even_name[299]"), ("write", "even_name{300}", list(range(300)), "even_name"),
    ],
    "P2": [
        # an element of a BOOL array that sits below an indexed parent: the word index belongs to the BOOL array, the parent keeps its own
        ("read", "arrs_ary[1].ba[33]", None, "arrs_ary[1].ba[1]|arrs_ary[1].ba[0]"), ("write", "arrs_ary[2].ba[40]", True, "arrs_ary[2].ba[1]"), ("write", "arrs_ary[1].ba[5]", True, "arrs_ary[1].ba[0]"),
        ("write", "arrs_ary[1].ba[32]{32}", [bool(i % 5) for i in range(32)], "arrs_ary[1].ba[1]"), ("read", "arrs_ary[2].ba[32]{32}", None, "arrs_ary[2].ba[1]|arrs_ary[2].ba[0]"),
        ("write", "arrs1.ba[63]", True, "arrs1.ba[1]"), ("read", "arrs_ary[2].sa[4]", None, "arrs_ary[2].sa[4]"), ("write", "arrs_ary[0].da[1]", 7, "arrs_ary[0].da[1]"),
        ("read", "mid1.many[1].vals[2]", None, "mid1.many[1].vals[2]"), ("write", "outer1.mids[1].many[0].vals[1]", 5, "outer1.mids[1].many[0].vals[1]"), ("write", "outer1.mids[1].one.x.3", True, "outer1.mids[1].one.x"),
        ("read", "padded_ary[2].d1", None, "padded_ary[2].d1"), ("read", "s20_ary[3].LEN", None, "s20_ary[3].LEN"), ("write", "str_ary[1]", "abc", "str_ary[1]"),
    ],
    "P3": [
        ("read", "ctl_dint", None, "ctl_dint"), ("read", "ctl_udt.a", None, "ctl_udt.a"), ("write", "ctl_udt.a", 5, "ctl_udt.a"), ("write", "ctl_udt.a.2", True, "ctl_udt.a"),
        ("read", "ctl_ary[9]", None, "ctl_ary[9]"), ("read", "Program:MainProgram.p_dint", None, "Program:MainProgram.p_dint"), ("write", "Program:MainProgram.p_dint", 3, "Program:MainProgram.p_dint"),
        ("read", "Program:MainProgram.p_ary[2]", None, "Program:MainProgram.p_ary[2]"), ("write", "Program:MainProgram.p_ary{4}", [1.0, 2.0, 3.0, 4.0], "Program:MainProgram.p_ary"),
        ("read", "Program:MainProgram.p_udt.s.LEN", None, "Program:MainProgram.p_udt.s.LEN"), ("write", "Program:MainProgram.p_bools[40]", True, "Program:MainProgram.p_bools[1]"),
        ("read", "Program:MainProgram.p_bools[33]", None, "Program:MainProgram.p_bools[1]|Program:MainProgram.p_bools[0]"), ("write", "Program:MainProgram.p_dint.7", True, "Program:MainProgram.p_dint"),
        ("read", "Program:Second_Prog.ctl_dint", None, "Program:Second_Prog.ctl_dint"), ("read", "Program:Second_Prog.p2_str", None, "Program:Second_Prog.p2_str"),
    ],
}
TAG_SERVICES = (0x4C, 0x4D, 0x4E, 0x52, 0x53)


def check_driver_paths(rep, pn, pers):
    """Reads and writes through the driver against the reference controller: the path of every tag service the controller
    receives (single, embedded in a Multiple Service Packet, every fragment, read-modify-write) parses to the element the
    call addresses; symbol-instance addressing only where the controller has it; the call succeeds."""
    import pycomm3
    from vmc.ref import logix, net, projgen
    from vmc.ref.projects import fill_image
    from .harness import call, make_target

    proj = projgen.build(pn, 0)
    try:
        fill_image(proj, 0)
    except Exception:  # noqa - projects without an image filler start from zeros
        pass
    ctl = logix.LogixController(proj, pers)
    ids_ok = ctl.pers.instance_addressing
    iid_of = {s_.name: s_.instance_id for s_ in proj.symbols if s_.kind in ("tag", "module")}
    t = make_target(ctl)
    where = {"kind": "driver-paths", "project": pn, "pers": pers}

    def intended(wire):
        base = wire.split(".")[0].split("[")[0]
        forms = [E.tag_segments(wire)]
        if "[" not in wire.split(".")[-1]:
            forms.append(E.tag_segments(wire + "[0]"))
        if ids_ok and not wire.startswith("Program:"):
            forms += [E.tag_segments(w_, iid_of[base]) for w_ in ([wire] if len(forms) == 1 else [wire, wire + "[0]"])]
        return forms

    def one_call(label, fn, wires):
        t.cip_log.clear()
        n_ev = len(t.events)
        w.io_budget = w.io_total + 200000
        out = call(fn)
        res = out[1] if out[0] == "ok" else None
        good = out[0] == "ok" and (all(bool(x) for x in res) if isinstance(res, list) else bool(res))
        seen = [[tuple(x) for x in e["path"]] for e in t.cip_log if e["service"] in TAG_SERVICES]
        allowed = [f for wire in wires for alt in wire.split("|") for f in intended(alt)]
        bad = [p for p in seen if p not in allowed]
        flagged = [e for e in t.events[n_ev:] if e[0].startswith("C09")]
        prob = None
        if bad:
            prob = ("wrong-element", f"the controller received a tag service for {bad[0]!r}; the call addresses {allowed[0]!r}")
        elif flagged:
            prob = ("target-flagged", f"{flagged[0][0]}: {flagged[0][1]:.100}")
        elif not good:
            prob = ("call-failed", f"result {out!r:.120}")
        elif not seen:
            prob = ("nothing-sent", "no tag service reached the controller")
        rep.case(("driver-path", pn, pers, label), outcome=f"ok:{len(seen)}-requests" if prob is None else prob[0], calls=max(1, len(seen)))
        if prob:
            kind_ = "bool-array" if "bools" in label else "fragmented" if "big_" in label else "bit" if label.rsplit(".", 1)[-1].isdigit() else "plain"
            rep.violation(f"driver-path/{prob[0]}/{label.split(' ')[0]}/{kind_}/{'symbolic' if not ids_ok else 'instance-ids'}", f"{pn}/{pers}: {label}: {prob[1]}", where)

    with net.World(t, io_budget=10**9) as w:
        d = pycomm3.LogixDriver("10.0.0.1")
        o = call(d.open)
        if o != ("ok", True):
            rep.violation("driver-path/open-failed", f"{pn}/{pers}: open() -> {o!r:.100}", where)
            return
        cases = DRIVER_CASES[pn]
        for op, tag, val, wire in cases:
            if op == "read":
                one_call(f"read {tag}", lambda: d.read(tag), [wire])
            else:
                one_call(f"write {tag}", lambda: d.write(tag, val), [wire])
        # the same requests in one call (Multiple Service Packets, fragmented ones in between)
        reads = [(tag, wire) for op, tag, val, wire in cases if op == "read"]
        writes = [(tag, val, wire) for op, tag, val, wire in cases if op == "write"]
        one_call("read all-in-one-call", lambda: d.read(*[tg for tg, _ in reads]), [w_ for _, w_ in reads])
        one_call("write all-in-one-call", lambda: d.write(*[(tg, v) for tg, v, _ in writes]), [w_ for _, _, w_ in writes])
        call(d.close)
    rep.sample({"driver_paths": pn, "personality": pers, "calls": len(DRIVER_CASES[pn]) + 2, "instance_addressing": ids_ok})


def run_shard(shard, tier, seed):
    rep = Report()
    k = shard[0]
    if k == "logical":
        vals = range(shard[2], shard[2] + 8192)
        check_logical(rep, shard[1], vals, forms=("int",))
        rep.sample({"ltype": shard[1], "values": f"{shard[2]}..{shard[2] + 8191}"})
    elif k == "logical32":
        check_logical(rep, shard[1], b32_values() + [0, 1, 0xFF, 0x100, 0xFFFF], forms=("int", "bytes1", "bytes2", "bytes4"))
    elif k == "reqpath":
        check_reqpath(rep)
    elif k == "ports":
        check_ports(rep)
    elif k == "symbols":
        check_symbols(rep)
    elif k == "epathopts":
        check_epathopts(rep)
    elif k == "seghist":
        check_segment_histories(rep)
    elif k == "longpath":
        check_long_paths(rep)
    elif k == "tags":
        check_tags(rep, shard[1], tier)
    elif k == "driver-paths":
        check_driver_paths(rep, shard[1], shard[2])
    elif k == "upload-paths":
        for page in (0, 1, 2):  # symbol lists in one reply, one symbol per reply, two per reply: continuation requests must keep their scope
            check_upload_paths(rep, shard[1], shard[2], page)
    elif k == "route-history":
        # emitted routes (Unconnected Send route path, Forward Open connection path) on a live driver must denote the
        # configured route whatever helper calls came before: C14's history exploration, path observations only
        from . import c14

        sub = Report()
        c14.run_history(sub, c14.HIST_PATHS[shard[1]], tier)
        rep.evaluations, rep.transitions, rep.cases, rep.nontrivial, rep.outcomes, rep.samples = sub.evaluations, sub.transitions, sub.cases, sub.nontrivial, sub.outcomes, sub.samples
        for sig, vs in sub.violations.items():
            if sig.endswith(("/requests", "/forward", "/alone")):
                for v in vs:
                    rep.violation("route-" + sig, v.msg, {"kind": "route-history", "shard": shard[1], "case": v.replay["case"]})
                rep.viol_counts["route-" + sig] = sub.viol_counts[sig]
    return rep


def replay(r):
    rep = Report()
    k = r["kind"]
    if k in ("logical", "logical-bad"):
        v = r["value"] if k == "logical" else 0
        check_logical(rep, r["ltype"], [v] if k == "logical" else [], forms=(r.get("form", "int"),))
    elif k == "route-history":
        rep = run_shard(("route-history", r["shard"]), "quick", 0)
    elif k == "upload-paths":
        check_upload_paths(rep, r["project"], r["pers"])
    elif k == "driver-paths":
        check_driver_paths(rep, r["project"], r["pers"])
    elif k == "reqpath":
        check_reqpath(rep)
    elif k in ("port", "bigport", "badlink", "badport"):
        check_ports(rep)
    elif k in ("symbol", "simpledata"):
        check_symbols(rep)
    elif k in ("epathopts", "epathbytes"):
        check_epathopts(rep)
    elif k == "seghist":
        check_segment_histories(rep)
    elif k == "longpath":
        check_long_paths(rep)
    elif k == "tag":
        from pycomm3.packets.util import tag_request_path
        use_ids = r["mode"].startswith("id")
        out = tag_request_path(r["tag"], {"instance_id": r["iid"] or 0x77}, use_ids)
        print("tag path bytes:", out.hex() if out else out)
        print("intended      :", E.tag_segments(r["tag"], r["iid"] if use_ids else None))
        print("parser        :", _parse(out, counted=True) if out else None)
        return _parse(out, counted=True) == ("ok", E.tag_segments(r["tag"], r["iid"] if use_ids else None)) if out else False
    for s, vs in rep.violations.items():
        print("  violates:", s, "::", vs[0].msg[:300])
    return not rep.violations

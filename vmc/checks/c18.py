"""C18 — SLC addresses select the right file, element and bit; data round-trips (E3 over addresses x values)."""
import struct

from vmc.core.report import Report
from vmc.ref import enip, net, slc, codec as R
from .harness import call

META = {
    "rule": "addresses generated from the grammar: file types N, B, F, L (files 3,7,8,9,10,11,254,255), S, I, O, and T/C sub-elements on reads; "
    "elements {0,1,15,16,254,255} (+ every element for one file per type in thorough); every bit 0..15 of the word forms; EVERY "
    "binary-file bit number 0..4095 (Bf/n); {count} in {1,2,3,max}; upper/lower case; I/O slot.word forms; invalid addresses: file "
    "numbers 0/256/1000, elements 256/300/1000, bits 16/99 in every address form and letter case (one field out of range at a time), Bf/4096, unsupported letters, trailing garbage. Values: boundary set of the "
    "element type (all 65536 words for one N address in thorough). Two data-table images with address-derived contents. Oracle: "
    "reference address parser + reference data table: read value == table content at (file, element, sub-element, bit); the PCCC "
    "command names the parsed file number and type; a write changes exactly the addressed words/bit of the whole table and reads "
    "back; {count} covers exactly count elements; invalid addresses raise RequestError and send nothing. distinct = distinct "
    "(address, operation, value, image).",
    "explanation": "bounded-exhaustive enumeration of addresses and values against a reference PCCC target",
    "assumptions": [
        "address grammar: T f:e[/b][{c}] for N,B,F,L; S:e[/b]; I:e[.w][/b], O:e[.w][/b]; Bf/n; Tf:e.SUB, Cf:e.SUB (reads); case-insensitive",
        "DF1 typed logical addressing: element size 2 (N,B,S,I,O), 4 (F,L), 6 (T,C); a field value of 0xFF escapes a 16-bit value (1770-6.5.16)",
        "Tag.tag / Tag.type of SLC results are not constrained by the property",
        "bit form of a long (L f:e/b): reads are checked (bit b of the element's low word); writes are not constrained (the framing of a one-word masked write into a 4-byte element is not settled by the documentation; the library's attempt is refused by the reference table); bit form of a float is not constrained",
        "refusals: the controller answers a command with every non-zero STS byte; a refused write must report failure and leave the table unchanged",
    ],
}
ESZ = slc.ELEM_SIZE
CT_BITS = {"EN": 15, "TT": 14, "DN": 13, "CU": 15, "CD": 14, "OV": 12, "UN": 11, "UA": 10}


def new_table(image):
    dev = slc.SLCDevice()

    def fill_for(typ, no):
        base = (sum(typ.encode()) * 31 + no * 17 + image * 101) & 0xFFFF
        if typ in ("F",):
            return None
        return lambda i: ((base + (i // 2) * 7919 + (i % 2) * 131 + (0x5A if image else 0)) >> (8 * (i % 2))) ^ (0xFF if image == 1 else 0)

    for typ, no, n in [("O", 0, 32), ("I", 1, 32), ("S", 2, 64), ("B", 3, 256), ("T", 4, 40), ("C", 5, 40), ("N", 7, 256), ("F", 8, 256), ("N", 9, 256),
                       ("B", 10, 256), ("L", 11, 256), ("N", 254, 256), ("N", 255, 256)]:
        f = dev.make_file(typ, no, n, fill_for(typ, no))
        if typ == "F":
            vals = [0.0, 1.5, -2.25, 3.4028234663852886e38, 1e-45, 100.125, -123456.0, 7.0]
            for i in range(n):
                f[4 * i : 4 * i + 4] = R.enc(("real", 4), vals[(i + image) % 8] * (1 if i < 8 else (i % 13) + 1) if vals[(i + image) % 8] < 1e30 else vals[(i + image) % 8])
    return dev


class Addr:
    __slots__ = ("typ", "file", "elem", "sub", "bit", "count", "kind", "read_only_check")


def ref_parse(text):
    """Reference address parser -> Addr or None (outside the supported grammar)."""
    import re

    s = text.upper()
    m = re.fullmatch(r"([NBFL])(\d{1,3}):(\d{1,3})(?:/(\d{1,2}))?(?:\{(\d+)\})?", s)
    a = Addr()
    a.sub = 0
    if m:
        a.typ, a.file, a.elem = m.group(1), int(m.group(2)), int(m.group(3))
        a.bit = int(m.group(4)) if m.group(4) is not None else None
        a.count = int(m.group(5)) if m.group(5) is not None else 1
        if not (1 <= a.file <= 255 and a.elem <= 255 and (a.bit is None or a.bit <= 15) and a.count >= 1):
            return None
        if a.bit is not None and a.typ == "F":
            return "unconstrained"
        a.kind = "bit" if a.bit is not None else "word"
        # a bit of a long: reading is unambiguous (bit b of the element's low word); how a masked write of one word of a
        # 4-byte element must be framed is not settled by the documentation -> reads are checked, writes are not constrained
        a.read_only_check = a.bit is not None and a.typ == "L"
        return a
    m = re.fullmatch(r"B(\d{1,3})/(\d{1,4})", s)
    if m:
        a.typ, a.file, n = "B", int(m.group(1)), int(m.group(2))
        if not (1 <= a.file <= 255 and n <= 4095):
            return None
        a.elem, a.bit, a.count, a.kind = n // 16, n % 16, 1, "bit"
        return a
    m = re.fullmatch(r"S:(\d{1,3})(?:/(\d{1,2}))?(?:\{(\d+)\})?", s)
    if m:
        a.typ, a.file, a.elem = "S", 2, int(m.group(1))
        a.bit = int(m.group(2)) if m.group(2) is not None else None
        a.count = int(m.group(3)) if m.group(3) is not None else 1
        if not (a.elem <= 255 and (a.bit is None or a.bit <= 15)):
            return None
        a.kind = "bit" if a.bit is not None else "word"
        return a
    m = re.fullmatch(r"([IO]):(\d{1,3})(?:\.(\d{1,3}))?(?:/(\d{1,2}))?(?:\{(\d+)\})?", s)
    if m:
        a.typ, a.file, a.elem = m.group(1), (0 if m.group(1) == "O" else 1), int(m.group(2))
        a.sub = int(m.group(3)) if m.group(3) is not None else 0
        a.bit = int(m.group(4)) if m.group(4) is not None else None
        a.count = int(m.group(5)) if m.group(5) is not None else 1
        if not (a.elem <= 255 and a.sub <= 255 and (a.bit is None or a.bit <= 15)):
            return None
        a.kind = "bit" if a.bit is not None else "word"
        return a
    m = re.fullmatch(r"([TC])(\d{1,3}):(\d{1,3})\.(ACC|PRE|EN|TT|DN|CU|CD|OV|UN|UA)", s)
    if m:
        a.typ, a.file, a.elem = m.group(1), int(m.group(2)), int(m.group(3))
        sub = m.group(4)
        if not (1 <= a.file <= 255 and a.elem <= 255):
            return None
        if sub in ("PRE", "ACC"):
            a.sub, a.bit, a.kind = (1 if sub == "PRE" else 2), None, "word"
        else:
            if (a.typ == "T" and sub not in ("EN", "TT", "DN")) or (a.typ == "C" and sub not in ("CU", "CD", "DN", "OV", "UN", "UA")):
                return "unconstrained"
            a.sub, a.bit, a.kind = 0, CT_BITS[sub], "bit"
        a.count = 1
        return a
    return None


def locate(dev, a):
    """-> (file bytes, byte offset of the first addressed word, element size) or None if the file/element does not exist."""
    f = dev.files.get((a.typ, a.file))
    if f is None:
        return None
    esz = ESZ[a.typ]
    if a.typ in ("I", "O"):
        off = a.elem * esz + a.sub * 2
        n = 2 * a.count
    elif a.typ in ("T", "C"):
        off = a.elem * esz + a.sub * 2
        n = 2
    else:
        off = a.elem * esz
        n = esz * a.count
    if off + n > len(f):
        return None
    return f, off, n


def ref_read(dev, a):
    loc = locate(dev, a)
    if loc is None:
        return ("nofile",)
    f, off, n = loc
    if a.kind == "bit":
        w = struct.unpack_from("<H", f, off)[0]
        return ("ok", bool(w >> a.bit & 1))
    if a.typ == "F":
        vals = [R.dec(("real", 4), bytes(f[off + 4 * i : off + 4 * i + 4]))[0] for i in range(a.count)]
    elif a.typ == "L":
        vals = [struct.unpack_from("<i", f, off + 4 * i)[0] for i in range(a.count)]
    else:
        vals = [struct.unpack_from("<h", f, off + 2 * i)[0] for i in range(a.count)]
    return ("ok", vals[0] if a.count == 1 else vals)


def ref_write(dev, a, value):
    """Expected data table after the write (dict copy) or None when the reference cannot apply it."""
    loc = locate(dev, a)
    if loc is None:
        return None
    f, off, n = loc
    snap = {k: bytearray(v) for k, v in dev.files.items()}
    g = snap[(a.typ, a.file)]
    if a.kind == "bit":
        w = struct.unpack_from("<H", g, off)[0]
        w = (w | (1 << a.bit)) if value else (w & ~(1 << a.bit) & 0xFFFF)
        struct.pack_into("<H", g, off, w)
        return snap
    vals = value if a.count > 1 else [value]
    for i, v in enumerate(vals[: a.count]):
        if a.typ == "F":
            g[off + 4 * i : off + 4 * i + 4] = R.enc(("real", 4), v)
        elif a.typ == "L":
            struct.pack_into("<i", g, off + 4 * i, v)
        else:
            struct.pack_into("<h", g, off + 2 * i, v)
    return snap


def addresses(tier):
    """(text, class) pairs."""
    out = []
    elems = [0, 1, 15, 16, 254, 255]
    for typ, files in (("N", (7, 9, 254, 255)), ("B", (3, 10)), ("F", (8,)), ("L", (11,))):
        for fno in files:
            es = range(256) if (tier == "thorough" and fno in (7, 3, 8, 11)) else elems
            for e in es:
                out.append((f"{typ}{fno}:{e}", f"{typ}/word"))
                for c in (2, 3, 10):
                    if e + c <= 256:
                        out.append((f"{typ}{fno}:{e}{{{c}}}", f"{typ}/count"))
                if typ in ("N", "B", "L"):  # bits 0..15 of a long are the bits of its low word
                    for b in range(16):
                        out.append((f"{typ}{fno}:{e}/{b}", f"{typ}/bit"))
    for fno in (3, 10):
        for n in range(4096):
            out.append((f"B{fno}/{n}", "B/bitnumber"))
    for e in (0, 1, 5, 63):
        out.append((f"S:{e}", "S/word"))
        out.append((f"S:{e}{{2}}", "S/count")) if e < 62 else None
        for b in range(16):
            out.append((f"S:{e}/{b}", "S/bit"))
    for t in ("I", "O"):
        for e in (0, 1, 3, 15):
            out.append((f"{t}:{e}", f"{t}/word"))
            for b in (0, 1, 7, 8, 15):
                out.append((f"{t}:{e}/{b}", f"{t}/bit"))
        for e, wd in ((0, 1), (1, 0), (2, 3)):
            out.append((f"{t}:{e}.{wd}", f"{t}/slot.word"))
            for b in (0, 9, 15):
                out.append((f"{t}:{e}.{wd}/{b}", f"{t}/slot.word-bit"))
    for e in (0, 1, 39):
        for sub in ("PRE", "ACC", "EN", "TT", "DN"):
            out.append((f"T4:{e}.{sub}", "T/" + ("word" if sub in ("PRE", "ACC") else "bit")))
        for sub in ("PRE", "ACC", "CU", "CD", "DN", "OV", "UN", "UA"):
            out.append((f"C5:{e}.{sub}", "C/" + ("word" if sub in ("PRE", "ACC") else "bit")))
    # lower case spelling of every address (every 16th of the 8192 binary bit numbers)
    low = []
    nbit = 0
    for text, cls in out:
        if cls == "B/bitnumber":
            nbit += 1
            if nbit % 16:
                continue
        if text.lower() != text:
            low.append((text.lower(), cls + "-lower"))
    out += low
    out += [("n7:1", "N/word-lower"), ("b3/17", "B/bitnumber-lower"), ("n9:2/3", "N/bit-lower"), ("f8:1", "F/word-lower"), ("s:1/2", "S/bit-lower"),
            ("i:1.0/3", "I/slot.word-bit-lower"), ("t4:1.acc", "T/word-lower"), ("c5:0.dn", "C/bit-lower"), ("l11:3", "L/word-lower")]
    return out


INVALID = ["N0:0", "N256:0", "N1000:0", "N7:256", "N7:1000", "N7:0/16", "N7:0/99", "B3/4096", "B3/10000", "B0/1", "B256/1", "X7:0", "Q1:0", "N7", "N7:", ":0", "",
           "N7:0/", "N7:0x", "xN7:0", "N7:0{2}junk", "N7:-1", "N7:1.5", "S:256", "S:1/16", "B3:0/16", "F8:256", "L11:1000", "T4:0.XYZ", "T4:256.ACC", "C5:0.", "7:0", "NN7:0",
           "N7 :0", "N7:0 ", " N7:0"]


def _gen_invalid():
    """Every address form with exactly one numeric field pushed out of range (both letter cases)."""
    out = []
    badf, bade, badb = (0, 256, 1000), (256, 300, 1000), (16, 99)
    for typ, f in (("N", 7), ("B", 3), ("F", 8), ("L", 11)):
        for x in badf:
            out += [f"{typ}{x}:0", f"{typ}{x}:0/1", f"{typ}{x}:0{{2}}"]
        for x in bade:
            out += [f"{typ}{f}:{x}", f"{typ}{f}:{x}/1", f"{typ}{f}:{x}{{2}}"]
        for x in badb:
            out += [f"{typ}{f}:0/{x}", f"{typ}{f}:255/{x}"]
    for x in bade:
        out += [f"S:{x}", f"S:{x}/1", f"S:{x}{{2}}"]
    out += [f"S:0/{x}" for x in badb]
    for typ in "IO":
        for x in bade:
            out += [f"{typ}:{x}", f"{typ}:{x}.0", f"{typ}:{x}/1", f"{typ}:{x}.0/1"]
        for x in badb:
            out += [f"{typ}:1/{x}", f"{typ}:1.0/{x}"]
    for x in badf:
        out += [f"B{x}/1", f"T{x}:0.ACC", f"C{x}:0.PRE"]
    for x in bade:
        out += [f"T4:{x}.ACC", f"T4:{x}.PRE", f"C5:{x}.ACC", f"T4:{x}.DN"]
    out += ["B3/4096", "B10/4096", "B3/65536"]
    return out + [a.lower() for a in out]


INVALID = list(dict.fromkeys(INVALID + _gen_invalid()))


def values_for(a, tier, text):
    if a.kind == "bit":
        return [True, False]
    if a.typ == "F":
        one = [0.0, -1.5, 3.4028234663852886e38, 1e-45, 100.25, 32768.0, 65535.0, -0.0, 1.0, 16777217.0]
    elif a.typ == "L":
        # the boundaries of every narrower width too: a long is not two words to the codec
        one = [0, 1, -1, 2147483647, -2147483648, 0x12345678, 127, 128, 255, 256, 32767, 32768, 40000, 65535, 65536, -128, -129, -32768, -32769, -65536, 0x7FFF8000]
    else:
        one = [0, 1, -1, 32767, -32768, 0x1234, -21931]
        if tier == "thorough" and text == "N7:1":
            one = list(range(-32768, 32768))
    if a.count == 1:
        return one
    exact = [[one[(i + k) % len(one)] for i in range(a.count)] for k in range(2)]
    # more values than {count}: only count elements may be written
    # ... and the values in another sequence type than a list
    return exact + [exact[0] + [one[3], one[4]], exact[1] + [one[2]], tuple(exact[1])] + ([range(3, 3 + a.count)] if a.typ != "F" else [])


def shards(tier, seed):
    return [("addr", part, image) for part in range(12) for image in (0, 1)] + [("invalid",), ("count-max",), ("refused",), ("longrun",)] + [("addr", 0, 0, "debuglog"), ("addr", 7, 1, "debuglog"), ("refused", "debuglog")] \
        + [("invalid", "python-O"), ("count-max", "python-O"), ("addr", 3, 0, "python-O"), ("refused", "python-O")]


def describe(tier, seed):
    return {"bounds": {"addresses": len(addresses(tier)), "invalid_addresses": len(INVALID), "images": 2, "binary_bit_numbers": "0..4095 x 2 files"}, "exhaustive": True}


def open_slc(image):
    import pycomm3

    dev = new_table(image)
    t = enip.Target(dev, keep_cip=False)
    w = net.World(t, io_budget=10**9)
    w.__enter__()
    d = pycomm3.SLCDriver("10.0.0.1")
    r = call(d.open)
    return dev, t, w, d, r


def same(a, b):
    if isinstance(a, float) or isinstance(b, float):
        return isinstance(a, (int, float)) and isinstance(b, (int, float)) and R.same_float(float(a), float(b))
    if isinstance(a, list) and isinstance(b, list):
        return len(a) == len(b) and all(same(x, y) for x, y in zip(a, b))
    return type(a) is type(b) and a == b


def run_shard(shard, tier, seed):
    rep = Report()
    kind = shard[0]
    if kind == "addr":
        _, part, image = shard
        dev, t, w, d, r = open_slc(image)
        alladdr = addresses(tier)
        for k, (text, cls) in enumerate(alladdr):
            if k % 12 != part:
                continue
            a = ref_parse(text)
            if a is None or a == "unconstrained":
                continue
            # ---- read
            dev.log.clear()
            want = ref_read(dev, a)
            out = call(d.read, text)
            probs = []
            if out[0] != "ok":
                probs.append(("read-exception", f"read raised {out!r:.100}"))
            elif want[0] == "ok":
                g = out[1]
                if not bool(g):
                    probs.append(("read-falsy", f"error {g.error!r:.80}"))
                elif not same(g.value, want[1]):
                    probs.append(("read-value", f"value {g.value!r:.60}, data table holds {want[1]!r:.60}"))
                cmds = [e for e in dev.log if "file" in e]
                if cmds and (cmds[-1]["file"], cmds[-1]["type"]) != (a.file, a.typ):
                    probs.append(("read-file", f"command addressed file {cmds[-1]['file']} type {cmds[-1]['type']}, address means file {a.file} type {a.typ}"))
            rep.case((text, "read", image), outcome="ok" if not probs else probs[0][0])
            for clause, detail in probs:
                rep.violation(f"{cls}/{clause}", f"read({text!r}) [image {image}]: {detail}", {"kind": "addr", "text": text, "op": "read", "image": image, "value": None})
            # ---- write (+ read back); timers/counters are read-only in the property
            if a.typ in ("T", "C") or getattr(a, "read_only_check", False):
                continue
            for v in values_for(a, tier, text):
                pre = dev.snapshot()
                exp = ref_write(dev, a, v)
                dev.log.clear()
                out = call(d.write, (text, v))
                probs = []
                if out[0] != "ok":
                    probs.append(("write-exception", f"write raised {out!r:.100}"))
                elif exp is not None:
                    g = out[1]
                    if not bool(g):
                        probs.append(("write-falsy", f"error {g.error!r:.80}"))
                    else:
                        for key, img in exp.items():
                            if bytes(dev.files[key]) != bytes(img):
                                fi = next(i for i in range(len(img)) if dev.files[key][i] != img[i])
                                probs.append(("write-memory", f"file {key}: byte {fi} (element {fi // ESZ[key[0]]}) holds {dev.files[key][fi]:#04x}, expected {img[fi]:#04x}, prior {pre[key][fi]:#04x}"))
                                break
                        if not probs:
                            rb = call(d.read, text)
                            wr = ref_read(dev, a)
                            if rb[0] != "ok" or not bool(rb[1]) or not same(rb[1].value, wr[1]):
                                probs.append(("read-back", f"read after write gives {rb!r:.80}, table holds {wr!r:.60}"))
                dev.restore(pre)
                rep.case((text, "write", repr(v)[:40], image), outcome="ok" if not probs else probs[0][0])
                for clause, detail in probs:
                    rep.violation(f"{cls}/{clause}", f"write({text!r}, {v!r:.40}) [image {image}]: {detail}", {"kind": "addr", "text": text, "op": "write", "image": image, "value": v})
        rep.sample({"part": part, "image": image, "addresses": len(alladdr) // 12, "example": alladdr[part][0]})
        call(d.close)
        w.__exit__()
    elif kind == "refused":
        # the controller answers with a PCCC status: every non-zero STS byte (local 0x01..0x0F, remote 0x10..0xF0, mixed), for reads and
        # writes of every address form; a refused write reports failure and leaves the table alone, a refused read is falsy
        dev, t, w, d, r = open_slc(0)
        forms = [("N7:3", 5), ("N7:3/5", True), ("N9:2{3}", [1, 2, 3]), ("B3/21", True), ("F8:1", 1.5), ("L11:2", 70000), ("S:1/3", True), ("O:2.1", 9), ("I:1/4", False)]
        for sts in range(1, 256):
            for text, v in forms:
                for op in ("read", "write"):
                    pre = dev.snapshot()
                    dev.refuse_next = sts
                    out = call(d.read, text) if op == "read" else call(d.write, (text, v))
                    used = dev.refuse_next is None
                    dev.refuse_next = None
                    probs = []
                    if out[0] not in ("ok", "pycomm"):
                        probs.append(("foreign-exception", f"{out!r:.100}"))
                    elif used and out[0] == "ok" and bool(out[1]):
                        probs.append(("refusal-accepted", f"the controller refused the command with STS {sts:#04x} but the call reports success: {out[1]!r:.80}"))
                    elif used and out[0] == "ok" and not (isinstance(out[1].error, str) and out[1].error):
                        probs.append(("empty-error", f"falsy result without an error text: {out[1]!r:.80}"))
                    if dev.snapshot() != pre:
                        probs.append(("memory", "the data table changed although the command was refused"))
                    rep.case((text, op, "refused", sts), nontrivial=used, outcome="refused-ok" if not probs else probs[0][0])
                    for clause, detail in probs:
                        rep.violation(f"refused/{op}/{clause}/{'local' if sts < 0x10 else 'remote' if not sts & 0x0F else 'mixed'}", f"{op}({text!r}) with STS {sts:#04x}: {detail}", {"kind": "refused"})
                    dev.restore(pre)
        rep.sample({"refused_status_bytes": "1..255", "forms": [f for f, _ in forms]})
        call(d.close)
        w.__exit__()
    elif kind == "invalid":
        from pycomm3.exceptions import RequestError

        dev, t, w, d, r = open_slc(0)
        for text in INVALID:
            for op in ("read", "write"):
                pre = dev.snapshot()
                n_log = len(dev.log)
                out = call(d.read, text) if op == "read" else call(d.write, (text, 1))
                sent = len(dev.log) > n_log
                ok = out[0] == "pycomm" and out[1] == "RequestError" and not sent and dev.snapshot() == pre
                rep.case((text, op, "invalid"), outcome="rejected" if ok else "accepted")
                if not ok:
                    cls = "trailing-or-leading-garbage" if ref_parse(text.strip("x junk")) else "out-of-range-or-unsupported"
                    rep.violation(f"invalid-address/{cls}/{op}", f"{op}({text!r}) -> {out!r:.100}; command sent: {sent}; the address is outside the grammar and must raise RequestError",
                                  {"kind": "invalid", "text": text, "op": op, "image": 0, "value": None})
                dev.restore(pre)
        rep.sample({"invalid_addresses": INVALID[:6]})
        w.__exit__()
    elif kind == "longrun":
        # a long-lived driver: 34 000 write / read-back rounds on one connection (transaction ids and sequence counts come round)
        dev, t, w, d, r = open_slc(0)
        bad = None
        for i in range(34000):
            v = (i * 7) % 30000 - 15000
            wr = call(d.write, ("N7:3", v))
            rd = call(d.read, "N7:3")
            if not (wr[0] == "ok" and bool(wr[1]) and rd[0] == "ok" and bool(rd[1]) and rd[1].value == v):
                bad = (i, wr, rd)
                break
        rep.case(("longrun", "N7:3"), outcome="ok" if bad is None else "bad", calls=68000)
        if bad:
            rep.violation("N/long-run/write-read", f"round #{bad[0] + 1} of writing and reading back N7:3 on one driver: write -> {bad[1]!r:.100}, read -> {bad[2]!r:.100}", {"kind": "longrun"})
        rep.sample({"long_run_rounds": 34000})
        w.__exit__()
    else:
        # {count} up to what one packet holds
        dev, t, w, d, r = open_slc(0)
        for typ, fno, esz in (("N", 7, 2), ("F", 8, 4), ("B", 3, 2)):
            for c in (1, 2, 60, 100, 120):
                if c * esz > 255:
                    continue  # the byte-size field of the command is one byte
                text = f"{typ}{fno}:5{{{c}}}"
                a = ref_parse(text)
                want = ref_read(dev, a)
                out = call(d.read, text)
                ok = out[0] == "ok" and bool(out[1]) and same(out[1].value, want[1])
                rep.case((text, "read-count"), outcome="ok" if ok else "bad")
                if not ok:
                    rep.violation(f"{typ}/count-large/read-value", f"read({text!r}) -> {out!r:.100}; table holds {want!r:.60}", {"kind": "addr", "text": text, "op": "read", "image": 0, "value": None})
        w.__exit__()
    return rep


def replay(r):
    if r.get("kind") in ("refused", "longrun"):
        rep = run_shard((r["kind"],), "quick", 0)
        for s_, vs in rep.violations.items():
            print("  violates:", s_, "::", vs[0].msg[:300])
        return not rep.violations
    dev, t, w, d, o = open_slc(r["image"])
    text = r["text"]
    a = ref_parse(text)
    print("address:", text, "-> reference:", None if a in (None, "unconstrained") else (a.typ, a.file, a.elem, a.sub, a.bit, a.count))
    if r["op"] == "read":
        out = call(d.read, text)
        print("library :", out)
        if a not in (None, "unconstrained"):
            want = ref_read(dev, a)
            print("table   :", want)
            ok = out[0] == "ok" and bool(out[1]) and same(out[1].value, want[1])
        else:
            ok = out[0] == "pycomm" and out[1] == "RequestError"
    else:
        v = r["value"] if r["value"] is not None else 1
        pre = dev.snapshot()
        exp = ref_write(dev, a, v) if a not in (None, "unconstrained") else None
        out = call(d.write, (text, v))
        print("library :", out, "\nlast PCCC command:", dev.log[-1] if dev.log else None)
        if exp is None:
            ok = out[0] == "pycomm" and out[1] == "RequestError"
        else:
            ok = out[0] == "ok" and bool(out[1]) and all(bytes(dev.files[k]) == bytes(v2) for k, v2 in exp.items())
    w.__exit__()
    return ok

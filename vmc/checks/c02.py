"""C02 — tag writes change exactly the addressed data, exactly once (E3 over write requests, E2 chains)."""
from vmc.core.report import Report
from vmc.ref.projects import fill_image, TypeDef
from . import logixreq as Q
from .c01 import open_world
from .harness import call

META = {
    "rule": "worlds as in C01 (personalities x connection sizes x projects P1-P3) x prior images {typed, all-zero, all-ones} x the write "
    "alphabet derived from the project model: every atomic leaf x its type's boundary values; slices [s]{n} with value lists of "
    "length n-1 (must fail), n, n+1 (truncated); members at every depth; .bit of integers both polarities; BOOL-array single "
    "elements, aligned ranges and misaligned ranges (must fail); strings of length 0, 1, cap-1, cap, cap+1, cap+40; structure "
    "dicts; raw bytes; each request once through the single-request path and once through the multi-service path (second small "
    "request added); several bits of one word and duplicates in one call; chains write->write->read over a reduced alphabet. "
    "Call histories (E2): every 2-sequence of 23 read/write operations (good, unknown, refused by the controller, unencodable, fragmented, lists mixing them) and every "
    "3-sequence (thorough 4) over 9 of them on 4 controller/connection configurations, memory accumulating along the history, each step judged by the reference from the current memory. "
    "Bits of several elements of one array and of several words of one BOOL array in one call. Refused write services (shared with C03): every n-th write service of single/3/6-request calls refused with 3 statuses - success may only be "
    "reported for data that is in memory. Oracle: byte-for-byte diff of ALL controller memory against the reference encoding applied to the prior image (care mask "
    "only inside written strings/structures), service log shows each write applied exactly once (fragments tile the value), "
    "returned Tag truthy with the value/type/name, read-back equals the reference reading of the expected image. "
    "Non-trivial = every executed write call; distinct = distinct (world, image, request, value, path).",
    "explanation": "bounded-exhaustive enumeration of write requests with a byte-for-byte memory oracle",
    "assumptions": [
        "don't-care bytes: DATA after a written string's characters, pad and hidden bytes inside a structure written whole",
        "the property is conditional on reported success; a reported success for a request the reference knows to be impossible (unknown member, index beyond the array, too-short list, misaligned BOOL range, out-of-range value, read-only tag) is reported as well",
        "the strict controller rejects service data whose length is not exactly what the service defines",
    ],
}
PROJECTS = ("P1", "P2", "P3")
PERS = ("v20", "v32", "m800", "v17")
CONNS = (4000, 500)
SMALL = {"P1": ("odd", "dint_s"), "P2": ("plain", "inner1.x"), "P3": ("ctl_dint", "zz_last")}


def write_cases(proj, tier):
    """(text, value, class) triples derived from the model."""
    out = []
    # slices of a long SINT array whose byte size sweeps every value around one, two and three fragments (both connection sizes when the array is long enough):
    # odd sizes, exact multiples of the fragment payload, one byte more and one byte less
    long_sint = next((tg for tg in proj.user_tags() if tg.typ == "SINT" and len(tg.dims) == 1 and tg.dims[0] >= 1500 and not tg.scope), None)
    if long_sint is not None:
        ns = set()
        for S in (500, 4000):
            for k in (1, 2, 3):
                ns |= set(range(k * (S - 16) - 44, k * (S - 16) + 6))
        for n in sorted(x for x in ns if 2 <= x <= long_sint.dims[0] - 3):
            out.append((f"{long_sint.name}[3]{{{n}}}", [((i * 5 + n) % 200) - 100 for i in range(n)], "atomic:slice-sweep"))
    for text, cls in Q.read_requests(proj, bits="boundary"):
        try:
            t = Q.parse_request(proj, text)
        except Q.Bad:
            continue
        if cls.endswith("boolarray-first"):
            continue  # a BOOL array written without an index is not specified by the docs
        if t.kind == "bit" or t.kind == "boolmember":
            out += [(text, True, cls), (text, False, cls), (text, 1, cls + "-int"), (text, 0, cls + "-int"), (text, 2, cls + "-int")]
        elif t.kind == "boolarray":
            if t.count == 1:
                out += [(text, True, cls), (text, False, cls)]
            else:
                vals = [bool((i * 7 + t.start) % 3 == 0) for i in range(t.count)]
                out.append((text, vals, cls))
                out.append((text, vals + [True], cls + "-long"))
                if t.count > 1:
                    out.append((text, vals[:-1], cls + "-short"))
                # BOOL elements are taken by truthiness: 0/1 ints, other truthy ints, a tuple instead of a list
                ints = [(0, 1, 2, 255, 0, -1, 1 << 40, 0)[(i + t.start) % 8] for i in range(t.count)]
                out.append((text, ints, cls + "-truthy-ints"))
                out.append((text, tuple(vals), cls + "-tuple"))
        else:
            vals = Q.boundary_values(t.typ)
            if tier != "thorough" and len(vals) > 4 and cls.count("member") and not isinstance(t.typ, TypeDef):
                vals = vals[:2] + vals[-2:]
            if t.count == 1:
                for v in vals:
                    out.append((text, v, cls))
                ov = Q.overlong(t.typ, vals[0])
                if ov is not None:
                    out.append((text, ov, cls + "-nested-long"))
                if not isinstance(t.typ, TypeDef) and t.typ not in ("BOOL", "DWORD", "REAL", "LREAL"):
                    bits = Q.INT_TYPES[t.typ]
                    signed = Q.ATOMS[t.typ][2][2]
                    out.append((text, (1 << (bits - 1)) if signed else (1 << bits), cls + "-range"))
                    out.append((text, "abc", cls + "-range"))
                    # numbers without an exact encoding for an integer tag are refused, not rounded; digits in a string are a string
                    out += [(text, 2.7, cls + "-range"), (text, "12", cls + "-range"), (text, -0.5, cls + "-range")]
                if not isinstance(t.typ, TypeDef) and t.typ not in ("BOOL",):
                    out.append((text, bytes((i * 17 + 3) & 0xFF for i in range(Q.type_size(t.typ))), cls + "-raw"))
            else:
                lst = [vals[i % len(vals)] for i in range(t.count)]
                if isinstance(t.typ, TypeDef) and t.typ.string_capacity is not None:
                    lst = [v[: t.typ.string_capacity] for v in lst]
                out.append((text, lst, cls))
                if Q.overlong(t.typ, lst[0]) is not None:
                    out.append((text, [Q.overlong(t.typ, v) for v in lst], cls + "-nested-long"))
                out.append((text, lst + [lst[0]], cls + "-long"))
                out.append((text, lst[:-1], cls + "-short"))
    return out


def tiles(entries, total):
    """Do (offset, length) pairs tile [0, total) exactly once, in order?"""
    pos = 0
    for off, ln in entries:
        if off != pos or ln <= 0:
            return False
        pos += ln
    return pos == total


def check_call(rep, cfg, image, proj, ctl, d, requests, path, sigp, cls):
    """Execute one write call and compare everything.  requests: list of (text, value)."""
    pre = proj.snapshot()
    ctl.svc_log.clear()
    exps = [Q.write_expect(proj, x, v) for x, v in requests]
    if len(requests) == 1:
        out = call(d.write, requests[0][0], requests[0][1])
        res = [out[1]] if out[0] == "ok" else None
    else:
        out = call(d.write, *requests)
        res = out[1] if out[0] == "ok" and isinstance(out[1], list) else None
    probs = []
    # expected memory: apply the successful requests in order
    want = {k: bytearray(v) for k, v in pre.items()}
    care = {k: bytearray(b"\xff" * len(v)) for k, v in pre.items()}
    if out[0] != "ok":
        probs.append(("exception", f"write raised {out!r:.120}"))
    elif res is None or len(res) != len(requests):
        probs.append(("shape", f"{len(requests)} requests, result {out[1]!r:.100}"))
    else:
        for (text, value), e, g in zip(requests, exps, res):
            ok = bool(g)
            if ok and not e.ok:
                probs.append(("false-success", f"{text!r} <- {value!r:.60} reported success but cannot succeed ({e.why})"))
                continue
            if not ok:
                if e.ok and sigp != "second":
                    probs.append(("falsy", f"{text!r} <- {value!r:.60}: error {getattr(g, 'error', None)!r:.100}"))
                continue
            img, mask = e.after(want[e.tag.full_name])
            want[e.tag.full_name][:] = img
            cm = care[e.tag.full_name]
            for i, m in enumerate(mask):
                cm[i] &= m
            if not Q.same_value(g.value, value):
                probs.append(("tag-value", f"{text!r}: Tag.value {g.value!r:.60}, written {value!r:.60}"))
            if g.type != e.typestr:
                probs.append(("tag-type", f"{text!r}: Tag.type {g.type!r}, documented {e.typestr!r}"))
            if g.tag != e.name:
                probs.append(("tag-name", f"{text!r}: Tag.tag {g.tag!r}, expected {e.name!r}"))
        # memory diff over ALL tags
        for t in proj.all_tags():
            name = t.full_name
            w_, c_ = want[name], care[name]
            if any((a ^ b) & m for a, b, m in zip(t.data, w_, c_)):
                first = next(i for i, (a, b, m) in enumerate(zip(t.data, w_, c_)) if (a ^ b) & m)
                addressed = any(e.ok and e.tag is t for e in exps)
                probs.append(("memory" if addressed else "memory-other-tag", f"{name}: byte {first} holds {t.data[first]:#04x}, expected {w_[first]:#04x} (prior {pre[name][first]:#04x}); tag image {bytes(t.data[max(0, first - 4):first + 8]).hex()}"))
                break
        # applied exactly once
        for (text, value), e, g in zip(requests, exps, res):
            if not (e.ok and bool(g)):
                continue
            mine = [x for x in ctl.svc_log if x[1] == e.tag.full_name and x[0] in ("write", "writefrag", "rmw")]
            n_same_tag = sum(1 for e2, g2 in zip(exps, res) if e2.ok and bool(g2) and e2.tag is e.tag)
            if n_same_tag == 1:
                frs = [x for x in mine if x[0] == "writefrag"]
                if frs:
                    if not tiles([(x[4], x[5]) for x in frs], e.nbytes) or len(mine) != len(frs):
                        probs.append(("not-once", f"{text!r}: fragments {[(x[4], x[5]) for x in frs]} do not tile {e.nbytes} bytes exactly once"))
                elif len(mine) != 1:
                    probs.append(("not-once", f"{text!r}: controller executed {len(mine)} write services for one request: {mine!r:.120}"))
        # read back
        if not probs:
            for (text, value), e, g in zip(requests, exps, res):
                if e.ok and bool(g):
                    rb = call(d.read, text)
                    wnt = Q.read_expect(proj, text)
                    if rb[0] != "ok" or not bool(rb[1]) or not Q.same_value(rb[1].value, wnt[1]):
                        probs.append(("read-back", f"{text!r}: read after write gives {rb!r:.100}, reference {wnt!r:.100}"))
    proj.restore(pre)
    key = (cfg, image, path, tuple((x, repr(v)[:60]) for x, v in requests))
    rep.case(key, outcome=("ok:" + "+".join("applied" if e.ok else "refused:" + str(e.why) for e in exps)[:60]) if not probs else probs[0][0])
    for clause, detail in probs[:3]:
        rep.violation(f"write/{path}/{cls}/{clause}", f"{cfg} image {image} [{path}]: {detail}",
                      {"cfg": list(cfg), "image": image, "requests": [[x, v] for x, v in requests], "path": path})
    return not probs


def shards(tier, seed):
    sh = []
    for pn in PROJECTS:
        for pers in PERS:
            for conn in CONNS:
                for path in ("single", "multi"):
                    if pers == "v17" and tier != "thorough" and path == "multi":
                        continue
                    sh.append(("sweep", pn, pers, conn, path))
                sh.append(("combos", pn, pers, conn, "combo"))
    # the controller refuses the n-th write service (every n, several statuses): success may only be reported for data that is in memory
    sh += [("refused", "P2", pers, conn, "refused") for pers in ("v20", "v32", "m800") for conn in CONNS]
    # E2: call histories mixing good and failing reads and writes; the reference judges every step from the memory the history has produced
    sh += [("history", "P2", pers, conn, "history") for pers, conn in (("v20", 500), ("v32", 4000), ("m800", 500), ("v21", 4000))]
    sh += [("history", "P2", "v20", 500, "history", "debuglog"), ("sweep", "P2", "v32", 500, "multi", "debuglog"), ("combos", "P1", "v20", 4000, "combo", "debuglog")]
    return sh


def describe(tier, seed):
    return {"bounds": {"projects": PROJECTS, "personalities": PERS, "connection_sizes": CONNS, "paths": ["single", "multi"], "images": "typed(seed), all-zero, all-ones", "chain_depth": 2}, "exhaustive": True}


def run_shard(shard, tier, seed):
    rep = Report()
    kind, pn, pers, conn, path = shard
    cfg = (pn, pers, conn)
    proj, ctl, t, w, d, r = open_world(pn, pers, conn, 0, choices=(), reduced=(tier != "thorough"))
    if r != ("ok", True):
        rep.case((cfg, "open"), outcome="open-failed")
        rep.violation("write/open-failed", f"{cfg}: open() -> {r!r:.120}", {"cfg": list(cfg), "image": 0, "requests": [], "path": path})
        w.__exit__()
        return rep
    if kind == "history":
        run_histories(rep, cfg, proj, ctl, d, tier, seed)
        call(d.close)
        w.__exit__()
        return rep
    if kind == "refused":
        from . import c03

        fill_image(proj, seed % 4)
        alone = c03.prepare(proj, ctl, d, "write")
        sub = Report()
        c03.run_refusals(sub, cfg, proj, ctl, d, "write", alone, statuses=[(0x04, []), (0xFF, [0x2105]), (0x10, [])])
        rep.evaluations, rep.transitions, rep.cases, rep.nontrivial, rep.outcomes = sub.evaluations, sub.transitions, sub.cases, sub.nontrivial, sub.outcomes
        for sig, vs in sub.violations.items():
            if "/refusal-swallowed/" in sig or "/memory/" in sig:
                for v in vs:
                    rep.violation(sig.replace("write/refused-service", "write/refused"), v.msg, {"cfg": list(cfg), "image": seed % 4, "requests": [], "path": "refused"})
                rep.viol_counts[sig.replace("write/refused-service", "write/refused")] = sub.viol_counts[sig]
        rep.sample({"config": cfg, "refused_write_services": "every n-th service of single, 3-request and 6-request write calls"})
        call(d.close)
        w.__exit__()
        return rep
    cases = write_cases(proj, tier)
    small = SMALL[pn]
    if kind == "sweep":
        images = [seed % 4, -1, -2] if tier == "thorough" else [seed % 4, -2 if seed % 2 else -1]
        for image in images:
            fill_image(proj, image)
            for text, value, cls in cases:
                if image < 0 and not (cls.endswith("bit") or "bool" in cls):
                    continue  # all-zero / all-ones priors matter for bit-level writes; value writes use the typed image
                other = small[1] if Q.tag_echo(text).split("[")[0].split(".")[0] == small[0].split(".")[0] or text.startswith(small[0]) else small[0]
                reqs = [(text, value)] if path == "single" else [(text, value), (other, 7)]
                check_call(rep, cfg, image, proj, ctl, d, reqs, path, "first", cls)
        rep.sample({"config": cfg, "path": path, "write_cases": len(cases), "example": [cases[len(cases) // 3][0], repr(cases[len(cases) // 3][1])[:40]]})
    else:
        fill_image(proj, seed % 4)
        # several bits of one word in one call, duplicates, and depth-2 chains over one case per class
        byclass = {}
        for text, value, cls in cases:
            if Q.write_expect(proj, text, value).ok:
                byclass.setdefault(cls, (text, value))
        alpha = list(byclass.values())
        bit_reqs = [(x, v) for x, v, c in cases if c.endswith(":bit") or c.endswith("-bit")]
        words = {}
        for x, v in bit_reqs:
            words.setdefault(x.rsplit(".", 1)[0], []).append((x, v))
        for base, lst in list(words.items())[:12]:
            sel = [lst[0], lst[-1]] + lst[2:5]
            check_call(rep, cfg, seed % 4, proj, ctl, d, sel, "combo", "first", "several-bits-of-one-word")
        # bits of DIFFERENT elements of one array (and of different words of one BOOL array) in one call
        for tg in proj.user_tags():
            if not isinstance(tg.typ, str) or len(tg.dims) != 1:
                continue
            n = tg.dims[0]
            if tg.typ in ("SINT", "INT", "DINT", "LINT") and n >= 3:
                sel = [(f"{tg.full_name}[0].3", True), (f"{tg.full_name}[1].3", True), (f"{tg.full_name}[2].0", False), (f"{tg.full_name}[1].7", True), (f"{tg.full_name}[{n - 1}].3", False)]
                check_call(rep, cfg, seed % 4, proj, ctl, d, sel, "combo", "first", "bits-of-several-elements")
            elif tg.typ == "DWORD" and n >= 2:
                sel = [(f"{tg.full_name}[3]", True), (f"{tg.full_name}[35]", False), (f"{tg.full_name}[{32 * n - 1}]", True), (f"{tg.full_name}[4]", False), (f"{tg.full_name}[36]", True)]
                check_call(rep, cfg, seed % 4, proj, ctl, d, sel, "combo", "first", "bits-of-several-elements")
        for a in alpha:
            check_call(rep, cfg, seed % 4, proj, ctl, d, [a, a], "combo", "first", "duplicate")
        red = alpha[:: max(1, len(alpha) // 14)]
        def same_tag(a, b):
            return Q.parse_request(proj, a[0]).tag is Q.parse_request(proj, b[0]).tag
        for a in red:
            for b in red:
                if a != b and same_tag(a, b):
                    continue  # the order in which one call applies conflicting writes is not specified
                check_call(rep, cfg, seed % 4, proj, ctl, d, [a, b], "combo", "first", "pair")
        # one call with many writes (overflows one multi-service packet at both connection sizes): every request exactly once
        big = next((tg for tg in proj.user_tags() if isinstance(tg.typ, str) and tg.typ in ("INT", "DINT", "REAL", "SINT") and len(tg.dims) == 1 and tg.dims[0] >= 200), None)
        if big is not None:
            for n in (30, 61, 200):
                many = [(f"{big.full_name}[{i}]", (i * 3) % 100) for i in range(n)]
                pre = proj.snapshot()
                ctl.svc_log.clear()
                out = call(d.write, *many)
                probs = []
                if out[0] != "ok" or not isinstance(out[1], list) or not all(bool(g) for g in out[1]):
                    probs.append(("many-falsy", f"{n} element writes in one call: {str(out)[:120]}"))
                else:
                    ws = [x for x in ctl.svc_log if x[1] == big.full_name and x[0] in ("write", "writefrag")]
                    if len(ws) != n:
                        probs.append(("not-once", f"{n} element writes requested in one call, controller executed {len(ws)} write services"))
                    esz = Q.type_size(big.typ)
                    for i in range(n):
                        e = Q.write_expect(proj, many[i][0], many[i][1])
                        img, mask = e.after(pre[big.full_name])
                        if bytes(big.data[i * esz:(i + 1) * esz]) != img[i * esz:(i + 1) * esz]:
                            probs.append(("many-memory", f"element {i} not written"))
                            break
                    if bytes(big.data[n * esz:]) != pre[big.full_name][n * esz:]:
                        probs.append(("many-memory", "bytes beyond the written elements changed"))
                proj.restore(pre)
                rep.case((cfg, "many", n), outcome="ok" if not probs else probs[0][0])
                for clause, detail in probs[:2]:
                    rep.violation(f"write/many-in-one-call/{clause}", f"{cfg}: {detail}", {"cfg": list(cfg), "image": 0, "requests": [[x, v] for x, v in many[:3]], "path": "many"})
        # chains: write a, then write b (separate calls, memory accumulates), then compare everything
        for a in red:
            for b in red:
                pre = proj.snapshot()
                ok1 = check_chain(rep, cfg, proj, ctl, d, [a, b])
                proj.restore(pre)
        rep.sample({"config": cfg, "combos": len(alpha), "chain_alphabet": len(red)})
    call(d.close)
    w.__exit__()
    return rep


def history_ops(proj):
    from . import c03

    pv = Q.struct_value(proj.find("padded1").typ, 2)
    big = [(i * 11) % 30000 for i in range(2100)]
    return {
        # reads
        "r-plain": ("read", ["plain"]), "r-struct": ("read", ["padded1"]), "r-frag": ("read", ["big_int{2100}"]), "r-bools": ("read", ["arrs1.ba[1]{40}"]),
        "r-bit": ("read", ["plain2.3"]), "r-list": ("read", ["plain", "str1", "inner1.name", "plain2.3"]),
        "r-unknown": ("read", ["nope"]), "r-refused": ("read", ["padded_ary[9]"]), "r-renamed-refused": ("read", ["big_int[2100].3"]),
        "r-mixed": ("read", ["nope", "plain", "padded_ary[9]", "plain3"]),
        # writes
        "w-plain": ("write", [("plain", 41)]), "w-bit": ("write", [("plain2.3", True)]), "w-bit0": ("write", [("plain2.3", False)]), "w-struct": ("write", [("padded1", pv)]),
        "w-frag": ("write", [("big_int{2100}", big)]), "w-str": ("write", [("str1", "history")]), "w-list": ("write", [("plain3", 9), ("bools1.b3", True), ("inner1.name", "xy")]),
        "w-unknown": ("write", [("nope", 1)]), "w-unencodable": ("write", [("plain3", "abc")]), "w-short": ("write", [("s20_ary{3}", ["a", "b"])]),
        "w-nolen": ("write", [("big_int{3}", 7)]), "w-readonly": ("write", [("ro_tag", 1)]), "w-mixed": ("write", [("nope", 1), ("plain", 43), ("ro_tag", 2), ("plain3", 10)]),
    }


def history_step(proj, d, kind, reqs):
    """One call judged against the reference from the memory as it is now -> list of (clause, detail)."""
    from . import c01, c03

    probs = []
    pre = proj.snapshot()
    out = call(d.read, *reqs) if kind == "read" else call(d.write, *(reqs if len(reqs) > 1 else reqs[0]))
    if out[0] != "ok":
        return [("exception", f"{kind} raised {out!r:.120}")]
    res = out[1] if isinstance(out[1], list) else [out[1]]
    if len(res) != len(reqs) or (len(reqs) == 1 and isinstance(out[1], list)):
        return [("shape", f"{len(reqs)} requests, result {out[1]!r:.80}")]
    for k, (g, rq) in enumerate(zip(res, reqs)):
        text = rq if kind == "read" else rq[0]
        c = c03.tag_ok(g)
        if c:
            probs.append(("truthiness-contract", f"#{k} {text!r}: {c}"))
            continue
        if kind == "read":
            want = Q.read_expect(proj, text)
            if want[0] == "ok":
                probs += [(cl, f"#{k} {text!r}: {dt}") for cl, dt in c01.judge(g, want, text)]
            elif bool(g):
                probs.append(("verdict", f"#{k} {text!r} cannot succeed ({want[1]}) but returned {g!r:.80}"))
            elif not c03.name_ok(g, text, False):
                probs.append(("name", f"#{k} carries tag {g.tag!r}, request was {text!r}"))
        else:
            e = Q.write_expect(proj, text, rq[1])
            if bool(g) != e.ok:
                probs.append(("verdict", f"#{k} {text!r}: {'succeeded' if bool(g) else 'failed (' + str(g.error)[:60] + ')'} but the reference says it {'succeeds' if e.ok else 'cannot succeed'}"))
            elif not c03.name_ok(g, text, bool(g)):
                probs.append(("name", f"#{k} carries tag {g.tag!r}, request was {text!r}"))
    if kind == "write" and not probs:
        m = c03.memory_problem(proj, pre, reqs, res)
        if m:
            probs.append(("memory", m))
    elif kind == "read" and proj.snapshot() != pre:
        probs.append(("memory", "a read changed controller memory"))
    return probs


def run_histories(rep, cfg, proj, ctl, d, tier, seed):
    import itertools

    fill_image(proj, seed % 4)
    ops = history_ops(proj)
    names = list(ops)
    sub = ["r-plain", "r-frag", "r-mixed", "r-renamed-refused", "w-bit", "w-frag", "w-mixed", "w-nolen", "w-struct"]
    hists = [h for h in itertools.product(names, repeat=2)] + [h for h in itertools.product(sub, repeat=3)]
    if tier == "thorough":
        hists += [h for h in itertools.product(sub, repeat=4)]
    base = proj.snapshot()
    for h in hists:
        proj.restore(base)
        bad = None
        for i, nm in enumerate(h):
            kind, reqs = ops[nm]
            probs = history_step(proj, d, kind, reqs)
            if probs:
                bad = (i, nm, probs)
                break
        rep.case((cfg, "history", h), outcome="ok" if bad is None else bad[2][0][0], calls=len(h))
        if bad:
            i, nm, probs = bad
            first = i == 0
            for clause, detail in probs[:2]:
                rep.violation(f"write/history/{clause}/{'first-call' if first else 'after-' + ops[h[i - 1]][0]}/{nm}", f"{cfg}: history {list(h[:i + 1])}: {nm}: {detail}",
                              {"cfg": list(cfg), "image": seed % 4, "requests": list(h[:i + 1]), "path": "history"})
    proj.restore(base)
    rep.sample({"config": cfg, "history_ops": names, "depth2": len(names) ** 2, "depth3_alphabet": sub})


def check_chain(rep, cfg, proj, ctl, d, seq):
    want = {k: bytearray(v) for k, v in proj.snapshot().items()}
    care = {k: bytearray(b"\xff" * len(v)) for k, v in want.items()}
    probs = []
    for text, value in seq:
        e = Q.write_expect(proj, text, value)
        out = call(d.write, text, value)
        if out[0] != "ok" or not bool(out[1]):
            probs.append(("chain-falsy", f"{text!r}: {out!r:.100}"))
            break
        img, mask = e.after(want[e.tag.full_name])
        want[e.tag.full_name][:] = img
        for i, m in enumerate(mask):
            care[e.tag.full_name][i] &= m
    if not probs:
        for t in proj.all_tags():
            if any((a ^ b) & m for a, b, m in zip(t.data, want[t.full_name], care[t.full_name])):
                probs.append(("chain-memory", f"after {[x for x, _ in seq]!r}: {t.full_name} differs from the reference"))
                break
        for text, value in seq[-1:]:
            rb = call(d.read, text)
            wnt = Q.read_expect(proj, text)
            if rb[0] != "ok" or not bool(rb[1]) or not Q.same_value(rb[1].value, wnt[1]):
                probs.append(("chain-read-back", f"{text!r}: {rb!r:.80} vs {wnt!r:.80}"))
    rep.case((cfg, "chain", tuple(x for x, _ in seq), tuple(repr(v)[:30] for _, v in seq)), outcome="ok" if not probs else probs[0][0], calls=len(seq) + 1)
    for clause, detail in probs[:2]:
        rep.violation(f"write/chain/{clause}", f"{cfg}: {detail}", {"cfg": list(cfg), "image": 0, "requests": [[x, v] for x, v in seq], "path": "chain"})
    return not probs


def replay(r):
    cfg = r["cfg"]
    proj, ctl, t, w, d, o = open_world(cfg[0], cfg[1], cfg[2], 0, choices=(), reduced=True)
    fill_image(proj, r["image"])
    reqs = [(x, tuple(v) if False else v) for x, v in r["requests"]]
    rep = Report()
    if r["path"] == "history":
        ops = history_ops(proj)
        ok = True
        for nm in r["requests"]:
            probs = history_step(proj, d, *ops[nm])
            print(" ", nm, "->", probs[:2] if probs else "ok")
            ok = ok and not probs
        w.__exit__()
        return ok
    if r["path"] == "refused":
        w.__exit__()
        rep = run_shard(("refused", cfg[0], cfg[1], cfg[2], "refused"), "quick", r["image"])
        for s_, vs in rep.violations.items():
            print("  violates:", s_, "::", vs[0].msg[:400])
        return not rep.violations
    if r["path"] == "chain":
        ok = check_chain(rep, tuple(cfg), proj, ctl, d, reqs)
    else:
        ok = check_call(rep, tuple(cfg), r["image"], proj, ctl, d, reqs, r["path"], "first", "replay")
    for s, vs in rep.violations.items():
        print("  violates:", s, "::", vs[0].msg[:400])
    print("controller service log:", ctl.svc_log[-6:])
    w.__exit__()
    return ok

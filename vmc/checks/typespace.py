"""The type grammar and value alphabets shared by C06 / C07 / C08.

A :class:`TNode` pairs a library type (built with the library's own constructors) with
the reference descriptor of the same type (vmc/ref/codec.py) and knows how to enumerate
values of the type's domain.
"""
import itertools
import re
import struct

from vmc.ref import codec as R


class CountingIO(__import__("io").BytesIO):
    """BytesIO with a read budget: a decoder that keeps reading past it is not terminating."""

    def __init__(self, data, budget=None):
        super().__init__(data)
        self.reads = 0
        self.budget = budget if budget is not None else 8 * len(data) + 64

    def read(self, *a):
        self.reads += 1
        if self.reads > self.budget:
            from vmc.core.explore import BudgetExceeded

            raise BudgetExceeded("read budget")
        return super().read(*a)

    def tell(self):
        # position queries count too (at a tenth): a loop that never reads but keeps asking where it is does not terminate either
        self.reads += 0.1
        if self.reads > self.budget:
            from vmc.core.explore import BudgetExceeded

            raise BudgetExceeded("read budget")
        return super().tell()


def _norm(label):
    return re.sub(r"-?\d+", "n", label)


class TNode:
    def __init__(self, label, lib, desc, kind="leaf", children=(), names=(), values=None, invalid=None,
                 enc=None, dec=None, consumes_all=False, cmp=None, sigclass=None):
        self.label = label
        self.cls = sigclass or (label.split("(")[0] if kind == "leaf" else _norm(label))
        self.lib = lib
        self.desc = desc
        self.kind = kind
        self.children = list(children)
        self.names = list(names)
        self._values = values
        self._invalid = invalid
        self._enc = enc
        self._dec = dec
        self.consumes_all = consumes_all
        self._cmp = cmp

    # -- library calls
    def encode(self, v):
        return self._enc(self.lib, v) if self._enc else self.lib.encode(v)

    def decode(self, buf):
        return self._dec(self.lib, buf) if self._dec else self.lib.decode(buf)

    def values(self, tier):
        return self._values(tier)

    def invalid_values(self, tier):
        return self._invalid(tier) if self._invalid else []

    def expected_roundtrip(self, v):
        """What decode(encode(v)) must return for in-domain v (reference decode of reference encode)."""
        return R.dec_all(self.desc, R.enc(self.desc, v))

    def same(self, a, b):
        return same_value(a, b)

    def split(self, v):
        """(child node, child value) pairs of a composite value, for blame assignment."""
        if self.kind == "array":
            try:
                return [(self.children[0], x) for x in v]
            except TypeError:
                return []
        if self.kind == "struct":
            out = []
            if isinstance(v, dict):
                for ch, n in zip(self.children, self.names):
                    if n in v:
                        out.append((ch, v[n]))
            else:
                try:
                    out = list(zip(self.children, v))
                except TypeError:
                    pass
            return out
        return []


def same_value(a, b):
    if isinstance(a, float) and isinstance(b, float):
        return R.same_float(a, b)
    if isinstance(a, bool) != isinstance(b, bool):
        return False
    if isinstance(a, (list, tuple)) and isinstance(b, (list, tuple)):
        return len(a) == len(b) and all(same_value(x, y) for x, y in zip(a, b))
    if isinstance(a, dict) and isinstance(b, dict):
        return a.keys() == b.keys() and all(same_value(a[k], b[k]) for k in a)
    if isinstance(a, (bytes, bytearray)) and isinstance(b, (bytes, bytearray)):
        return bytes(a) == bytes(b)
    if type(a) is not type(b) and not (isinstance(a, (int, float)) and isinstance(b, (int, float))):
        return False
    return a == b


# ------------------------------------------------------------------ value alphabets
def int_values(nbytes, signed, tier, small=False):
    bits = nbytes * 8
    lo, hi = (-(1 << (bits - 1)), (1 << (bits - 1)) - 1) if signed else (0, (1 << bits) - 1)
    if small:
        return sorted({lo, hi, 0, 1, lo + 1, hi - 1, 0x5A & hi})
    if nbytes <= 2:
        return list(range(lo, hi + 1))
    s = {lo, hi, 0, 1, -1 if signed else 1}
    for k in range(bits):
        for d in (-1, 0, 1):
            for sg in (1, -1):
                v = sg * (1 << k) + d
                if lo <= v <= hi:
                    s.add(v)
    for byte in (0x00, 0xFF, 0x55, 0xAA, 0x7F, 0x80, 0x01, 0xA5):
        v = int.from_bytes(bytes([byte]) * nbytes, "little", signed=signed)
        s.add(v)
    for i in range(nbytes):
        b = bytearray(nbytes)
        b[i] = 0xFF
        s.add(int.from_bytes(b, "little", signed=signed))
        b = bytearray(b"\xff" * nbytes)
        b[i] = 0
        s.add(int.from_bytes(b, "little", signed=signed))
    s.add(int.from_bytes(bytes(range(1, nbytes + 1)), "little", signed=signed))
    if tier == "thorough":
        # every 16-bit pattern in the low half below a few high-half patterns, and in the high half above a few low patterns
        mask = (1 << bits) - 1
        for other in (0x0000, 0x0001, 0x7FFF, 0x8000, 0xFFFF, 0xA5A5):
            hi = int.from_bytes(other.to_bytes(2, "little") * (nbytes // 2 - 1), "little") << 16
            for low in range(0x10000):
                for u in ((hi | low) & mask, ((low << (bits - 16)) | (hi >> 16)) & mask):
                    s.add(u - (1 << bits) if signed and u >> (bits - 1) else u)
    return sorted(s)


def int_invalid(nbytes, signed):
    bits = nbytes * 8
    lo, hi = (-(1 << (bits - 1)), (1 << (bits - 1)) - 1) if signed else (0, (1 << bits) - 1)
    import decimal
    import fractions

    # ... and numbers that are EQUAL to a valid value (and hash like it) without being an integer
    return [lo - 1, hi + 1, 1 << 64, -(1 << 64), 1 << 70, None, "1", b"\x01", 1.5, [1], {"a": 1}, (1,),
            1.0, 0.0, float(hi) if nbytes <= 4 else 4096.0, decimal.Decimal(1), fractions.Fraction(1, 1), fractions.Fraction(0)]


def real_patterns(nbytes, tier, small=False):
    """Bit patterns: every pattern of the upper 16 bits x lower bits {0, 1, all ones}."""
    if small:
        if nbytes == 4:
            return [0, 0x80000000, 0x3F800000, 0xBF800000, 0x7F7FFFFF, 0x00000001, 0x00800000, 0x7F800000, 0x42F6E979]
        return [0, 1 << 63, 0x3FF0000000000000, 0x7FEFFFFFFFFFFFFF, 1, 0x7FF0000000000000, 0x405EDD2F1A9FBE77]
    out = []
    if nbytes == 4:
        uppers = range(0x10000) if tier == "thorough" else sorted(set(range(0, 0x10000, 7)) | set(range(0x7F00, 0x8100)) | set(range(0xFF00, 0x10000)) | set(range(0, 0x100)))
        for up in uppers:
            for low in (0, 1, 0xFFFF):
                out.append((up << 16) | low)
    else:
        uppers = range(0x10000) if tier == "thorough" else sorted(set(range(0, 0x10000, 13)) | set(range(0x7FE0, 0x8020)) | set(range(0xFFE0, 0x10000)) | set(range(0, 0x40)))
        for up in uppers:
            for low in (0, 1, (1 << 48) - 1):
                out.append((up << 48) | low)
    return out


def real_values(nbytes, tier, small=False):
    fmt = "<f" if nbytes == 4 else "<d"
    vals = []
    for p in real_patterns(nbytes, tier, small):
        v = R.dec_all(("real", nbytes), p.to_bytes(nbytes, "little"))
        vals.append(v)
    if not small:
        vals += [0.1, -0.1, 1 / 3, 1e-40, 123456.789, 16777217.0, 3.4028235e38, 1e-50, 5]  # inexact in binary32; an int
    return vals


LATIN = "".join(chr(c) for c in range(256))


def str_values(prefix, width, tier, small=False, cap=None):
    maxlen = (1 << (8 * prefix)) - 1
    if cap is not None:
        maxlen = min(maxlen, cap)
    if small:
        base = ["", "a", "Hi!", "\x00\xff"[: 2 if width == 1 else 1] + "z"]
        return [s for s in base if len(s) <= maxlen]
    out = []
    if width == 1:
        alpha = LATIN
    else:
        alpha = "".join(chr(c) for c in list(range(0x20, 0x7F)) + [0xFF, 0x100, 0x3A9, 0x20AC, 0xD7FF, 0xE000, 0xFFFD, 0xFFFF, 0])
    lens = list(range(0, min(maxlen, 255) + 1)) if tier == "thorough" or maxlen <= 64 else sorted(x for x in set(list(range(0, 20)) + [31, 32, 33, 63, 64, 65, 82, 127, 128, 129, 254, 255]) if x <= maxlen)
    if maxlen > 255:
        lens += [256, 257, 1000] + ([maxlen] if maxlen <= 70000 else [])
    for n in lens:
        if n > maxlen:
            continue
        # rotate through the alphabet so every code point occurs
        s = "".join(alpha[(n * 7 + i) % len(alpha)] for i in range(n))
        out.append(s)
    out += [alpha[i : i + 16] for i in range(0, len(alpha), 16) if 16 <= maxlen]
    return out


def bits_values(nbytes, tier, small=False):
    n = nbytes * 8
    if small:
        pats = [0, (1 << n) - 1, 1, 1 << (n - 1), int("A5" * nbytes, 16)]
    elif nbytes <= 2:
        pats = range(1 << n)
    else:
        pats = {0, (1 << n) - 1}
        for i in range(n):
            pats.add(1 << i)
            pats.add(((1 << n) - 1) ^ (1 << i))
        pats |= {int("A5" * nbytes, 16), int("5A" * nbytes, 16), int("01" * nbytes, 16), int("80" * nbytes, 16)}
        pats = sorted(pats)
    out = [[bool(p >> i & 1) for i in range(n)] for p in pats]
    # bits are taken by truthiness: flags that are not exactly 0/1 (a masked value, a raw 0xFF BOOL byte, a count) set the bit and nothing else
    out.append([(0, 2, 0xFF, 0, -1, 0, 3, 1 << 40)[i % 8] for i in range(n)])
    out.append([(0x80 if i % 3 == 0 else 0) for i in range(n)])
    return out


# ------------------------------------------------------------------ leaves
def leaves():
    """name -> factory(name_for_member|None) -> TNode"""
    import pycomm3.cip as C
    from pycomm3 import custom_types as CT

    L = {}

    def int_leaf(tname, nbytes, signed):
        def make(member=None, small=False):
            lib = getattr(C, tname)
            lib = lib(member) if member is not None else lib
            return TNode(tname, lib, ("int", nbytes, signed),
                         values=lambda tier: int_values(nbytes, signed, tier, small),
                         invalid=lambda tier: int_invalid(nbytes, signed))
        return make

    for tname, nb, sg in [("SINT", 1, True), ("INT", 2, True), ("DINT", 4, True), ("LINT", 8, True),
                          ("USINT", 1, False), ("UINT", 2, False), ("UDINT", 4, False), ("ULINT", 8, False),
                          ("STIME", 4, True), ("DATE", 2, False), ("TIME_OF_DAY", 4, False), ("FTIME", 4, True),
                          ("LTIME", 8, True), ("ITIME", 2, True), ("TIME", 4, True)]:
        L[tname] = int_leaf(tname, nb, sg)

    def bool_leaf(member=None, small=False):
        lib = C.BOOL(member) if member is not None else C.BOOL
        return TNode("BOOL", lib, ("bool",), values=lambda tier: [True, False], invalid=lambda tier: [])
    L["BOOL"] = bool_leaf

    def real_leaf(tname, nb):
        def make(member=None, small=False):
            lib = getattr(C, tname)
            lib = lib(member) if member is not None else lib
            bad = [None, "1.0", b"\x00\x00\x80\x3f", [1.0], {"a": 1.0}, 1 << 2000]
            if nb == 4:
                bad += [1e39, -1e39, 3.4028236e38]
            return TNode(tname, lib, ("real", nb), values=lambda tier: real_values(nb, tier, small), invalid=lambda tier: bad)
        return make
    L["REAL"] = real_leaf("REAL", 4)
    L["LREAL"] = real_leaf("LREAL", 8)

    def str_leaf(tname, prefix, width):
        def make(member=None, small=False):
            lib = getattr(C, tname)
            lib = lib(member) if member is not None else lib
            bad = [None, 5, b"abc", ["a"], 1.5]
            if width == 1:
                bad += ["Ā", "a€b"]
            else:
                bad += ["\ud800"]
            if prefix == 1:
                bad += ["x" * 256, "y" * 300]
            if prefix == 2:
                bad += ["x" * 65536]
            return TNode(tname, lib, ("str", prefix, width), values=lambda tier: str_values(prefix, width, tier, small), invalid=lambda tier: bad)
        return make
    L["STRING"] = str_leaf("STRING", 2, 1)
    L["SHORT_STRING"] = str_leaf("SHORT_STRING", 1, 1)
    L["LOGIX_STRING"] = str_leaf("LOGIX_STRING", 4, 1)
    L["STRING2"] = str_leaf("STRING2", 2, 2)

    def bits_leaf(tname, nb):
        def make(member=None, small=False):
            lib = getattr(C, tname)
            lib = lib(member) if member is not None else lib
            n = nb * 8
            bad = [[], [True] * (n - 1), [True] * (n + 1), [False] * (2 * n), None, 5]
            return TNode(tname, lib, ("bits", nb), values=lambda tier: bits_values(nb, tier, small), invalid=lambda tier: bad)
        return make
    for tname, nb in [("BYTE", 1), ("WORD", 2), ("DWORD", 4), ("LWORD", 8), ("ENGUNIT", 2)]:
        L[tname] = bits_leaf(tname, nb)

    def nbytes_leaf(k):
        def make(member=None, small=False):
            lib = C.n_bytes(k, member or "")
            if k == -1:
                vals = [b"\x00", b"abc", bytes(range(256))]
            else:
                vals = [bytes((i * 37 + 1) & 0xFF for i in range(k)), bytes(k), b"\xff" * k, bytes((i * 37 + 1) & 0xFF for i in range(k + 3))]
            bad = [None, 5, "ab", [1, 2]] + ([bytes(k - 1)] if k > 0 else [])
            return TNode(f"n_bytes({k})", lib, ("bytes", k), values=lambda tier: vals, invalid=lambda tier: bad, consumes_all=(k == -1))
        return make
    for k in (1, 2, 5):
        L[f"n_bytes({k})"] = nbytes_leaf(k)

    def fix_leaf(cap, lt_name, lt_bytes, max_len=None):
        def make(member=None, small=False):
            lt = getattr(C, lt_name) if lt_name != "default" else None
            if lt_name == "default":
                # the call forms the driver uses: length type left to the default (an unsigned 32-bit LEN)
                lib = CT.FixedSizeString(cap) if max_len is None else CT.FixedSizeString(cap, max_len_=max_len)
            else:
                lib = CT.FixedSizeString(cap, lt) if max_len is None else CT.FixedSizeString(cap, lt, max_len)
            lib = lib(member) if member is not None else lib
            bad = [None, 5, b"ab", "Ā"]
            return TNode(f"FixedSizeString({cap},{lt_name}" + (f",{max_len})" if max_len is not None else ")"), lib, ("fixstr", cap, lt_bytes),
                         values=lambda tier: str_values(lt_bytes, 1, tier, small, cap=cap if max_len is None else max_len), invalid=lambda tier: bad)
        return make
    for cap, lt, lb in [(1, "UDINT", 4), (20, "UDINT", 4), (82, "UDINT", 4), (480, "UDINT", 4), (12, "UINT", 2), (7, "USINT", 1)]:
        L[f"FixedSizeString({cap},{lt})"] = fix_leaf(cap, lt, lb)
    # the data area of an uploaded string type includes alignment padding: capacity (characters) < size (bytes on the wire)
    for cap, lt, lb, ml in [(84, "UDINT", 4, 82), (12, "UDINT", 4, 10), (4, "UINT", 2, 1), (84, "default", 4, 82), (20, "default", 4, None), (3, "default", 4, None)]:
        L[f"FixedSizeString({cap},{lt},{ml})"] = fix_leaf(cap, lt, lb, ml)

    def ip_leaf(member=None, small=False):
        lib = CT.IPAddress(member) if member is not None else CT.IPAddress
        vals = ["0.0.0.0", "255.255.255.255", "192.168.1.100", "10.0.0.1", "1.2.3.4", "127.0.0.1", "224.0.0.251", "0.0.0.255", "255.0.0.0", "100.200.30.4"]
        # ints and 4-byte strings are accepted by ipaddress.IPv4Address and therefore not in the invalid alphabet
        bad = [None, "1.2.3", "1.2.3.4.5", "256.1.1.1", "a.b.c.d", "", "1.2.3.-4", [1, 2, 3, 4], 1.5]
        return TNode("IPAddress", lib, ("ipv4",), values=lambda tier: vals, invalid=lambda tier: bad)
    L["IPAddress"] = ip_leaf

    def rev_leaf(member=None, small=False):
        lib = CT.Revision(member) if member is not None else CT.Revision
        desc = ("struct", (("major", ("int", 1, False)), ("minor", ("int", 1, False))))
        def vals(tier):
            if small:
                return [{"major": 1, "minor": 2}, {"major": 255, "minor": 0}]
            rng = range(256) if tier == "thorough" else [0, 1, 2, 20, 32, 127, 128, 254, 255]
            return [{"major": a, "minor": b} for a in rng for b in rng]
        bad = [{"major": 256, "minor": 0}, {"major": 1}, {"minor": 1}, None, 5, {"Major": 1, "minor": 1}, [1], {"major": -1, "minor": 0}]
        return TNode("Revision", lib, desc, kind="struct", names=["major", "minor"],
                     children=[L["USINT"]("major", True), L["USINT"]("minor", True)], values=vals, invalid=lambda tier: bad)
    L["Revision"] = rev_leaf

    return L


def special_nodes():
    """Types whose public encode has its own signature."""
    import pycomm3.cip as C

    def dt_values(tier):
        ts = int_values(4, False, "quick", small=True)
        ds = int_values(2, False, "quick", small=True)
        return [(t, d) for t in ts for d in ds]

    dt = TNode("DATE_AND_TIME", C.DATE_AND_TIME, ("datetime",), values=dt_values,
               invalid=lambda tier: [(1 << 32, 0), (0, 1 << 16), (-1, 0), (None, 0), ("1", 2), (0, None), (0, -1), ([1], 0), (0, [1]), (1.5, 0), (0, 2.5), ({}, 0)],
               enc=lambda lib, v: lib.encode(*v))

    def sn_values(tier):
        out = []
        for s in ["", "a", "abc", "Hello, World", "x" * 255, "y" * 256, "~" * 1000]:
            for w in (1, 2, 4):
                out.append((s, w))
        out += [("\xe9\xff", 2), ("€Ω", 2), ("\xe9", 4), ("\U0001F600x", 4), ("￿", 2)]
        return out

    sn = TNode("STRINGN", C.STRINGN, ("stringn",), values=sn_values,
               invalid=lambda tier: [("a", 3), ("a", 0), (None, 1), (5, 1), ("\xe9", 1), ("\U0001F600", 2), ("x" * 65536, 1),
                                     # the character size is an argument too: every kind of wrong object, hashable or not
                                     ("a", -1), ("a", None), ("a", "1"), ("a", 1.5), ("a", (1,)), ("a", [1]), ("a", {}), ("a", {1}), ("a", bytearray(b"\x01")), ("a", 8), ("a", True + 1 == 3)],
               enc=lambda lib, v: lib.encode(v[0], v[1]))
    sn.expected_roundtrip = lambda v: v[0]

    codes = {0xD0: C.STRING, 0xD5: C.STRING2, 0xD9: C.STRINGN, 0xDA: C.SHORT_STRING}

    def si_values(tier):
        out = [[]]
        for code in codes:
            for text in ("", "a", "Hello", "x" * 40):
                out.append([(text, code, "eng", 4)])
        out.append([("one", 0xD0, "eng", 4), ("deux", 0xDA, "fra", 4), ("drei", 0xD5, "deu", 1000), ("", 0xD0, "spa", 5)])
        out.append([("€Ω", 0xD5, "zho", 1000)])
        out.append([("\xe9t\xe9", 0xD0, "fra", 4), ("\xe9t\xe9", 0xDA, "fra", 4)])
        out.append([("a", 0xD0, "eng", 0xFFFF)] * 255)
        return out

    si = TNode("STRINGI", C.STRINGI, ("stringi",), values=si_values,
               invalid=lambda tier: [[("a", 0xD0, "eng", 1 << 16)], [(5, 0xD0, "eng", 4)], [("a", 0xD0, "eng", 4)] * 256],
               enc=lambda lib, v: lib.encode(*[(t, codes[c], l, cs) for (t, c, l, cs) in v]))

    def si_expected(v):
        return ([t for t, c, l, cs in v], [l for t, c, l, cs in v], [cs for t, c, l, cs in v])
    si.expected_roundtrip = si_expected
    si.same = lambda a, b: same_value(tuple(a) if isinstance(a, tuple) else a, b)
    return [dt, sn, si]


# ------------------------------------------------------------------ constructors
def make_array(length, elem, how="Array", member=None):
    """length: int | ('prefix', name, nbytes, 'class'|'instance') | None"""
    import pycomm3.cip as C

    if isinstance(length, int):
        lib = C.Array(length, elem.lib) if how == "Array" else elem.lib[length]
        ldesc = length
        llabel = str(length)
    elif length is None:
        lib = C.Array(None, elem.lib) if how == "Array" else elem.lib[None]
        ldesc = None
        llabel = "None"
    else:
        _, lname, lbytes, form = length
        lt = getattr(C, lname)
        lt = lt("n") if form == "instance" else lt
        lib = C.Array(lt, elem.lib) if how == "Array" else elem.lib[lt]
        ldesc = ("prefix", lbytes)
        llabel = lname + ("()" if form == "instance" else "")
    if member is not None:
        lib = lib(member)
    is_bits = elem.desc[0] == "bits"
    per = elem.desc[1] * 8 if is_bits else 1

    def values(tier):
        ev = elem.values(tier if elem.kind == "leaf" and False else "quick")
        # element alphabet reduced to a rotating subset so that arrays stay small but varied
        ev = ev if len(ev) <= 12 else [ev[i] for i in sorted({0, 1, 2, len(ev) // 3, len(ev) // 2, len(ev) - 2, len(ev) - 1})]
        out = []
        if isinstance(length, int):
            lens = [length, length + 2]  # over-long input is truncated to the array length
        elif length is None:
            lens = [1, 2, 3, 4, 17] if not elem.consumes_all else [1]
        else:
            lens = [0, 1, 2, 3, 4, 17]
        for n in lens:
            for rot in range(min(3, max(1, len(ev)))):
                vals = [ev[(rot + i) % len(ev)] for i in range(n)]
                if is_bits:
                    vals = [b for g in vals for b in g]
                out.append(vals)
        return out

    def invalid(tier):
        ev = elem.values("quick")
        bad = [None, 5]
        if isinstance(length, int) and length > 0:
            short = [ev[i % len(ev)] for i in range(length - 1)]
            if is_bits:
                short = [b for g in short for b in g]
            bad.append(short)
            bad.append([])
        einv = [x for x in elem.invalid_values(tier) if x is not None][:2]
        if not is_bits:
            n = length if isinstance(length, int) else 2
            for x in einv:
                if n:
                    bad.append([x] + [ev[0]] * (n - 1))
        else:
            bad.append([True] * (per * (length if isinstance(length, int) else 1) + (1 if not isinstance(length, int) else -1)))
        # containers of the wrong shape (sized, but not sequences), long enough to pass any length guard
        import collections

        n = (length if isinstance(length, int) and length > 0 else 2) * (per if is_bits else 1)
        bad.append({f"k{i}": (True if is_bits else ev[0]) for i in range(n)})
        bad.append({f"k{i}": 0 for i in range(n)}.keys())
        bad.append(frozenset(f"k{i}" for i in range(n)))
        bad.append(set(range(1000, 1000 + n)) if n > 1 else {None})
        if not is_bits and einv:
            bad.append(collections.deque([einv[0]] + [ev[0]] * (n - 1)))
        return bad

    label = f"{how}({llabel},{elem.label})"
    lk = "n" if isinstance(length, int) else "None" if length is None else "prefix"
    sigclass = f"Array[{lk}]" + ("<bits>" if is_bits else "")
    return TNode(label, lib, ("array", ldesc, elem.desc), kind="array", children=[elem], values=values, invalid=invalid,
                 consumes_all=(length is None) or elem.consumes_all, sigclass=sigclass)


def make_struct(members, member=None):
    """members: list of (name|None|'', TNode built with that member name)"""
    import pycomm3.cip as C

    lib = C.Struct(*[m.lib for _, m in members])
    if member is not None:
        lib = lib(member)
    desc = ("struct", tuple((n or None, m.desc) for n, m in members))
    names = [n for n, _ in members]
    named = [n for n in names if n]
    all_named = len(named) == len(names) and len(set(named)) == len(named)

    def values(tier):
        per = []
        for n, m in members:
            mv = m.values("quick")
            mv = mv if len(mv) <= 3 else [mv[0], mv[len(mv) // 2], mv[-1]]
            per.append(mv)
        out = []
        # product capped: full product when small, else rotating diagonal
        total = 1
        for p in per:
            total *= len(p)
        if total <= 81:
            combos = itertools.product(*per)
        else:
            k = max(len(p) for p in per)
            combos = [tuple(p[(r + i) % len(p)] for i, p in enumerate(per)) for r in range(k)]
        for combo in combos:
            out.append(dict(zip(names, combo)) if all_named else list(combo))
        return out

    def invalid(tier):
        good = values(tier)[0]
        bad = [None, 5]
        if all_named:
            g = dict(good)
            k = names[0]
            missing = {x: y for x, y in g.items() if x != k}
            bad.append(missing)
            mis = dict(missing)
            mis[k + "_"] = g[k]
            bad.append(mis)
            bad.append(list(g.values())[:-1] if len(g) > 1 else [])
            # every member missing in turn (a BOOL member would take any stand-in by truthiness), and present only under another letter case
            for kk in names[1:]:
                bad.append({x: y for x, y in g.items() if x != kk})
            bad.append({(x.upper() if x == names[-1] else x): y for x, y in g.items()})
        else:
            bad.append(list(good)[:-1])
        for i, (n, m) in enumerate(members):
            for x in [y for y in m.invalid_values(tier) if y is not None][:1]:
                if all_named:
                    b = dict(good)
                    b[n] = x
                else:
                    b = list(good)
                    b[i] = x
                bad.append(b)
        return bad

    label = "Struct(" + ",".join(f"{n}:{m.label}" if n else m.label for n, m in members) + ")"
    sigclass = "Struct" + ("" if all_named else "(unnamed-or-duplicate-members)")
    node = TNode(label, lib, desc, kind="struct", children=[m for _, m in members], names=names, values=values, invalid=invalid,
                 consumes_all=members[-1][1].consumes_all if members else False, sigclass=sigclass)
    node.all_named = all_named
    return node


def type_space(tier):
    """The list of TNodes explored (grammar depth 2 quick / 3 thorough)."""
    L = leaves()
    nodes = []
    # depth 0: every leaf, full alphabets
    for name, mk in L.items():
        nodes.append(mk())
    nodes += special_nodes()
    # depth 1: arrays of every leaf in every length kind
    small = lambda name, member=None: L[name](member, True)
    arr_lengths = [0, 1, 2, 3, 4, ("prefix", "USINT", 1, "class"), ("prefix", "UINT", 2, "instance"), ("prefix", "UDINT", 4, "instance"),
                   ("prefix", "ULINT", 8, "class"), None]
    for name in L:
        for ln in arr_lengths:
            if ln == 0 and tier != "thorough" and name not in ("UINT", "STRING", "DWORD"):
                continue
            e = small(name)
            if ln is None and (R_size0(e) or e.consumes_all):
                continue
            nodes.append(make_array(ln, e, how="Array"))
        if isinstance(small(name).lib, type):
            nodes.append(make_array(3, small(name), how="index"))
    # depth 1: structs
    struct_shapes = [
        [("a", "UINT")],
        [("a", "USINT"), ("b", "DINT"), ("c", "REAL")],
        [("s", "STRING"), ("n", "SINT")],
        [("x", "SHORT_STRING"), ("y", "SHORT_STRING"), ("z", "LREAL")],
        [("w", "WORD"), ("b", "BOOL"), ("d", "DWORD")],
        [(None, "UINT"), ("v", "INT")],
        [("", "USINT"), ("v", "ULINT"), (None, "n_bytes(2)")],
        [(None, "UINT"), (None, "UINT")],
        [("dup", "UINT"), ("dup", "USINT")],
        [("ip", "IPAddress"), ("rev", "Revision"), ("name", "SHORT_STRING")],
        [("f", "FixedSizeString(20,UDINT)"), ("t", "LINT")],
        [("s2", "STRING2"), ("l", "LOGIX_STRING")],
        [("r", "n_bytes(5)"), ("e", "ENGUNIT"), ("lw", "LWORD"), ("by", "BYTE")],
        [("t1", "STIME"), ("t2", "DATE"), ("t3", "TIME_OF_DAY"), ("t4", "FTIME"), ("t5", "LTIME"), ("t6", "ITIME"), ("t7", "TIME")],
    ]
    structs = []
    for shape in struct_shapes:
        st = make_struct([(n, small(t, n if n is not None else None)) for n, t in shape])
        structs.append((shape, st))
        nodes.append(st)
    # every leaf type as a nameless (reserved / padding) member between two named ones: it occupies exactly its wire width
    for name in L:
        e = small(name)
        if e.consumes_all:
            continue
        nodes.append(make_struct([("a", small("USINT", "a")), (None, e), ("z", small("UINT", "z"))]))
    # depth 2: arrays of structs, structs with arrays / nested structs, arrays of arrays
    for shape, _ in structs[:6]:
        for ln in (2, ("prefix", "UINT", 2, "class"), None):
            st = make_struct([(n, small(t, n if n is not None else None)) for n, t in shape])
            nodes.append(make_array(ln, st))
    for ename in ("UINT", "STRING", "DWORD", "REAL", "SHORT_STRING"):
        inner = make_array(2, small(ename))
        nodes.append(make_array(3, inner))
        nodes.append(make_array(("prefix", "USINT", 1, "class"), make_array(2, small(ename))))
        m_arr = make_array(3, small(ename), member="arr")
        m_cnt = small("UINT", "cnt")
        nodes.append(make_struct([("cnt", m_cnt), ("arr", m_arr)]))
        m_parr = make_array(("prefix", "USINT", 1, "instance"), small(ename), member="parr")
        nodes.append(make_struct([("parr", m_parr), ("tail", small("INT", "tail"))]))
    inner = make_struct([("a", small("USINT", "a")), ("s", small("STRING", "s"))], member="in")
    nodes.append(make_struct([("pre", small("DINT", "pre")), ("in", inner), ("post", small("BOOL", "post"))]))
    tail_all = make_array(None, small("UINT"), member="rest")
    nodes.append(make_struct([("hdr", small("USINT", "hdr")), ("rest", tail_all)]))
    nodes.append(make_struct([("hdr", small("USINT", "hdr")), ("rest", nbytes_rest("rest"))]))
    for mkst in structtag_nodes():
        nodes.append(mkst())
        nodes.append(make_array(3, mkst()))
        nodes.append(make_array(None, mkst()))
        nodes.append(make_struct([("st", mkst("st")), ("tail", small("UINT", "tail"))]))
    nodes.append(make_array(None, nbytes_rest(None)))
    if tier == "thorough":
        # depth 3
        for shape, _ in structs[:4]:
            st = make_struct([(n, small(t, n if n is not None else None)) for n, t in shape])
            arr = make_array(2, st, member="items")
            outer = make_struct([("n", small("UINT", "n")), ("items", arr), ("crc", small("UDINT", "crc"))])
            nodes.append(outer)
            nodes.append(make_array(2, outer))
        for ename in ("UINT", "STRING", "DWORD"):
            nodes.append(make_array(2, make_array(2, make_array(2, small(ename)))))
    return nodes


def nbytes_rest(member):
    import pycomm3.cip as C

    lib = C.n_bytes(-1, member or "")
    vals = [b"\x00", b"abc", bytes(range(7))]
    return TNode("n_bytes(-1)", lib, ("bytes", -1), values=lambda tier: vals, invalid=lambda tier: [None, 5], consumes_all=True)


def R_size0(node):
    try:
        return R.size_of(node.desc) == 0
    except R.RefError:
        return False


# ---- generated structure layouts -------------------------------------------------------------
def structtag_layouts():
    """(label, builder) pairs; builder() -> (lib StructTag type, reference descriptor, value list)."""
    import pycomm3.cip as C
    from pycomm3.custom_types import StructTag, FixedSizeString

    def atom(name):
        d = {"SINT": ("int", 1, True), "INT": ("int", 2, True), "DINT": ("int", 4, True), "LINT": ("int", 8, True),
             "REAL": ("real", 4), "DWORD": ("bits", 4), "USINT": ("int", 1, False), "UINT": ("int", 2, False), "LREAL": ("real", 8)}[name]
        return getattr(C, name), d

    def build(size, members, bits, hidden):
        """members: (name, libtype-or-(lib,desc), desc, offset); bits: (name, offset, bit)"""
        lib = StructTag(*[(lt(n), off) for n, lt, d, off in members], bit_members={n: (o, b) for n, o, b in bits},
                        private_members=set(hidden), struct_size=size)
        desc = ("structtag", size, tuple((n, d, off) for n, lt, d, off in members), tuple(bits), frozenset(hidden))
        return lib, desc

    out = []

    def L1():  # packed BOOLs spanning two hidden host bytes, then padded members
        S, sd = atom("SINT"); I, idd = atom("INT"); D, dd = atom("DINT"); Rl, rd = atom("REAL")
        members = [("ZZZZZZZZZZUdt0", S, sd, 0), ("ZZZZZZZZZZUdt9", S, sd, 1), ("i", I, idd, 2), ("d", D, dd, 4), ("s", S, sd, 8), ("r", Rl, rd, 12)]
        bits = [(f"b{k}", k // 8, k % 8) for k in range(11)]
        lib, desc = build(16, members, bits, ["ZZZZZZZZZZUdt0", "ZZZZZZZZZZUdt9"])
        vals = []
        for k in range(12):
            v = {f"b{j}": (j == k) for j in range(11)}
            v.update(i=[-32768, 32767, 0, 1, -1, 0x55AA][k % 6], d=[-(1 << 31), (1 << 31) - 1, 0, 1, -1, 0x11223344][k % 6], s=[-128, 127, 0, 1, -1, 0x5A][k % 6], r=[0.0, -1.5, 3.4028234663852886e38, 1e-45, 100.25, -0.0][k % 6])
            vals.append(v)
        vals.append({**{f"b{j}": True for j in range(11)}, "i": -1, "d": -1, "s": -1, "r": -1.0})
        return lib, desc, vals
    out.append(("packed-bools+padding", L1))

    def L2():  # arrays, DWORD member (bool array), LINT at 8-alignment
        S, sd = atom("SINT"); D, dd = atom("DINT"); W, wd = atom("DWORD"); Li, ld = atom("LINT")
        members = [("arr", C.Array(5, S), ("array", 5, sd), 0), ("bools", C.Array(2, W), ("array", 2, wd), 8), ("big", Li, ld, 16), ("dar", C.Array(3, D), ("array", 3, dd), 24)]
        lib, desc = build(36, members, [], [])
        vals = []
        for k in range(6):
            vals.append({"arr": [(k * 31 + j) % 256 - 128 for j in range(5)], "bools": [((k + j) % 3 == 0) for j in range(64)],
                         "big": [-(1 << 63), (1 << 63) - 1, 0, 1, -1, 0x0102030405060708][k], "dar": [k - 1, -(1 << 31) + k, (1 << 31) - 1 - k]})
        return lib, desc, vals
    out.append(("arrays+dword+lint", L2))

    def L3():  # nested structure, array of nested structures, string member
        S, sd = atom("SINT"); I, idd = atom("INT"); D, dd = atom("DINT")
        inner_lib, inner_desc = build(8, [("h", S, sd, 0), ("x", I, idd, 2), ("y", D, dd, 4)], [("f", 0, 0), ("g", 0, 7)], ["h"])
        F = FixedSizeString(6)
        members = [("n", D, dd, 0), ("in1", inner_lib, inner_desc, 4), ("ins", C.Array(2, inner_lib), ("array", 2, inner_desc), 12),
                   ("str", F, ("fixstr", 6, 4), 28)]
        lib, desc = build(40, members, [], [])
        vals = []
        for k in range(5):
            iv = lambda j: {"x": [0, -1, 32767, -32768, 5][(k + j) % 5], "y": [0, -1, (1 << 31) - 1, -(1 << 31), 7][(k + j) % 5], "f": bool((k + j) % 2), "g": bool((k + j) % 3 == 0)}
            vals.append({"n": k - 2, "in1": iv(0), "ins": [iv(1), iv(2)], "str": ["", "a", "abcdef", "\xe9\xff", "xyz"][k]})
        return lib, desc, vals
    out.append(("nested+array-of-struct+string", L3))

    def L4():  # structure size extends past the last member (trailing pad after a BOOL host)
        S, sd = atom("SINT"); D, dd = atom("DINT")
        members = [("d", D, dd, 0), ("ZZZZZZZZZZPad4", S, sd, 4)]
        lib, desc = build(8, members, [("flag", 4, 0), ("other", 4, 3)], ["ZZZZZZZZZZPad4"])
        vals = [{"d": d, "flag": f, "other": o} for d in (0, -1, 0x01020304, -(1 << 31)) for f in (False, True) for o in (False, True)]
        return lib, desc, vals
    out.append(("trailing-pad", L4))

    def L5():  # BOOL members hosted in a VISIBLE member (MESSAGE.Flags style): the BOOL value decides its host bit
        I, idd = atom("INT"); D, dd = atom("DINT")
        members = [("flags", I, idd, 0), ("d", D, dd, 4)]
        bits = [("ew", 0, 1), ("er", 0, 2), ("dn", 0, 7), ("to", 1, 0)]
        lib, desc = build(8, members, bits, [])
        vals = [{"flags": f, "d": 0x01020304, "ew": bool(m & 1), "er": bool(m & 2), "dn": bool(m & 4), "to": bool(m & 8)}
                for f in (0, -1, 0x0186, 0x0100, 0x0002, 0x7E79) for m in range(16)]
        return lib, desc, vals
    out.append(("bools-over-visible-host", L5))

    def L6():  # several private padding members of one type under one (empty) name, between and behind the visible members
        S, sd = atom("USINT"); I, idd = atom("UINT")
        members = [("a", I, idd, 0), ("", S, sd, 2), ("", S, sd, 3), ("b", I, idd, 4), ("", S, sd, 6), ("c", I, idd, 8), ("", S, sd, 10)]
        lib, desc = build(12, members, [], [""])
        vals = [{"a": 0x1111, "b": 0x2222, "c": 0x3333}, {"a": 0, "b": 65535, "c": 1}, {"a": 65535, "b": 0, "c": 0x8000}]
        return lib, desc, vals
    out.append(("same-named-private-members", L6))
    return out




def structtag_nodes():
    out = []
    for label, mk in structtag_layouts():
        def one(member=None, mk=mk, label=label):
            lib, desc, vals = mk()
            if member is not None:
                lib = lib(member)
            return TNode(f"StructTag[{label}]", lib, desc, values=lambda tier, vals=vals: vals,
                         invalid=lambda tier, vals=vals: [None, 5, {}, {k: v for k, v in list(vals[0].items())[1:]}],
                         sigclass="StructTag")
        out.append(one)
    return out


def blame(node, v, fails):
    """Deepest component for which `fails(node, value)` is true (structural signature class)."""
    for ch, cv in node.split(v):
        try:
            f = fails(ch, cv)
        except Exception:  # noqa
            f = False
        if f:
            return blame(ch, cv, fails)
    return node

"""Shared helpers for the checks that drive the real drivers against the reference target."""
from vmc.core.explore import BudgetExceeded
from vmc.ref import enip, net, wire as W


_CPU_BUDGET = [float(__import__("os").environ.get("VMC_CALL_CPU_SECONDS", "150"))]
_CPU_ARMED = [False]


def _cpu_alarm(signum, frame):
    raise BudgetExceeded("cpu time budget of one library call exceeded")


def _arm_cpu_budget():
    """Non-termination that does no I/O (a loop over a list that grows, a counter that never arrives) is a verdict too: every library call
    gets a budget of CPU time (process CPU, so a loaded machine does not matter); outermost call only, main thread only."""
    import signal
    import threading

    if _CPU_ARMED[0] or threading.current_thread() is not threading.main_thread():
        return False
    signal.signal(signal.SIGVTALRM, _cpu_alarm)
    signal.setitimer(signal.ITIMER_VIRTUAL, _CPU_BUDGET[0])
    _CPU_ARMED[0] = True
    return True


def call(fn, *a, **k):
    """Run a public API call; classify how it ended.

    -> ('ok', result) | ('pycomm', exception class name, text) | ('foreign', class name, text) | ('hang',)
    """
    from pycomm3.exceptions import PycommError

    def text(e):
        try:
            return str(e)[:120]
        except Exception as x:  # noqa
            return x

    armed = _arm_cpu_budget()
    try:
        return ("ok", fn(*a, **k))
    except PycommError as e:
        t = text(e)
        if not isinstance(t, str):
            # an exception that cannot be printed blows up in the application's handler or log call instead
            return ("foreign", f"{type(t).__name__} (raised while formatting the {type(e).__name__})", repr(t)[:80])
        return ("pycomm", type(e).__name__, t)
    except BudgetExceeded as e:
        if "cpu" in str(e):
            _CPU_BUDGET[0] = 0.5  # the verdict is in; later calls of this process get little patience
        return ("hang",)
    except Exception as e:  # noqa
        t = text(e)
        return ("foreign", type(e).__name__, t if isinstance(t, str) else repr(t)[:80])
    finally:
        if armed:
            import signal

            signal.setitimer(signal.ITIMER_VIRTUAL, 0)
            _CPU_ARMED[0] = False


def frame_violations(world, target):
    """C11 oracle: every message handed to the socket is exactly one well-formed frame."""
    out = []
    for i, msg in enumerate(world.messages):
        n = W.frame_len(msg)
        if n is None:
            out.append(("frame/short", f"message #{i} of {len(msg)} bytes is shorter than an encapsulation header: {msg[:24].hex()}"))
        elif n != len(msg):
            out.append(("frame/length-field", f"message #{i}: {len(msg)} bytes written but header length field implies {n}: {msg[:24].hex()}"))
    for a in world.tx_anomalies:
        out.append(("frame/stream", f"partial send continued with different bytes: {a!r}"))
    for tag, detail in target.events_for("C11"):
        out.append((tag[4:], detail))
    return out


class debug_logging:
    """Within the block the library logs at its most verbose level into a handler that formats every record (so lazily
    evaluated log arguments are evaluated too): behaviour must not depend on whether anybody listens to the log."""

    class _Sink(__import__("logging").Handler):
        def emit(self, record):
            try:
                record.getMessage()
            except Exception:  # noqa - formatting problems of a log line are the library's, but not the property's, business
                pass

    def __enter__(self):
        import logging

        self.lg = logging.getLogger("pycomm3")
        self.prev = (logging.root.manager.disable, self.lg.level, self.lg.propagate)
        self.h = self._Sink(level=1)
        logging.disable(logging.NOTSET)
        self.lg.setLevel(1)
        self.lg.propagate = False
        self.lg.addHandler(self.h)
        return self

    def __exit__(self, *a):
        import logging

        self.lg.removeHandler(self.h)
        logging.disable(self.prev[0])
        self.lg.setLevel(self.prev[1])
        self.lg.propagate = self.prev[2]
        return False


def make_target(device=None, policy=None, identity=None, **kw):
    return enip.Target(device if device is not None else enip.IdentityDevice(), policy or enip.Policy(), identity, **kw)

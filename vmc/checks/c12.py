"""C12 — reply frames survive any TCP segmentation (E1 on the real Socket.receive / Socket.send loops)."""
import struct

from vmc.core.explore import BudgetExceeded, Ctx, explore, check_deterministic
from vmc.core.report import Report
from vmc.ref import net

META = {
    "rule": "frames with body length L in {0,1,2,3,4,8,40,231,232,233,255,256,257,488,1000,4002,32767,32768,65511}; every segmentation of the frame "
    "into recv chunks with at most B cut points (quick B=3 for frames up to 64 bytes = every set of <=3 cut positions; all "
    "2^(n-1) compositions for the 24..28-byte frames in thorough); for longer frames every subset of the boundary cut set "
    "{1,2,3,4,5,23,24,25,255,256,257,511,512,n-1}; all-one-byte delivery; peer close / socket error / timeout after every byte "
    "count of the boundary set, combined with <=1 further cut; send: every pattern of <=3 partial sends, a zero return and an "
    "error after each partial; histories of two receives on ONE Socket object: the first complete or cut by a timeout after k in {0,1,2,3,4,5,23,24,n-1} bytes, "
    "the second a complete frame under <=2 cuts (3 x 4 frame-length pairs). An execution = one call of the real Socket.receive/Socket.send over the scripted OS socket. "
    "Non-trivial = at least one cut or fault; distinct = distinct (frame, choice vector).",
    "explanation": "stateless deviation-bounded search (iterative deviation bounding) over the network's choices",
    "assumptions": [
        "the fake OS socket honours the bufsize argument, models a closed peer as recv() == b'' and an error as OSError",
        "one reply frame is in flight at a time (the protocol is strictly request/response)",
        "recv-call budget per receive = frame length + 8",
    ],
}


class SinkEndpoint:
    closed_by_peer = False
    closed = False

    def feed(self, data):
        return b""

    def close(self):
        self.closed = True


class SinkTarget:
    def accept(self, addr):
        return SinkEndpoint()


def frame(L, fill=0):
    body = bytes((fill + i * 7 + 3) & 0xFF for i in range(L))
    return b"\x6f\x00" + struct.pack("<H", L) + bytes((0x11 * (i + 1)) & 0xFF for i in range(20)) + body


FRAME_LENGTHS = [0, 1, 2, 3, 4, 8, 40, 231, 232, 233, 255, 256, 257, 488, 1000, 4002, 32767, 32768, 65511]


def boundary_cuts(n):
    return sorted({c for c in (1, 2, 3, 4, 5, 23, 24, 25, 255, 256, 257, 511, 512, n - 1) if 0 < c < n})


def send_cuts(n):
    """Where the OS may stop accepting bytes of a long message: the small boundaries, the middle, and around every power of two
    and the usual buffer / segment sizes (a window or chunk constant in the sender shows only beyond it)."""
    c = set(boundary_cuts(n)) | {n // 2}
    for k in range(6, 17):
        c |= {(1 << k) - 1, 1 << k, (1 << k) + 1}
    c |= {1000, 1024 * 3, 1460, 1461, 2920, 4000, 4002, 5000, 10000, 50000, 65535}
    return {x for x in c if 0 < x < n}


def recv_scenario(fr, cutset, rx_end="timeout", trunc=None):
    """One execution: real Socket.receive over a stream holding fr[:trunc]."""
    import pycomm3.socket_ as S
    from pycomm3.exceptions import CommError

    data = fr if trunc is None else fr[:trunc]

    def scenario(ctx):
        w = net.World(SinkTarget(), ctx, chunk_choices=True, cutset=cutset, rx_end=rx_end, io_budget=len(fr) + 8)
        with w:
            sk = S.Socket()
            sk.connect("10.0.0.1", 44818)
            sk.sock.rx += data
            try:
                r = sk.receive()
                if r == fr:
                    return "frame"
                return "wrong-bytes:%d" % len(r)
            except CommError:
                return "CommError"
            except BudgetExceeded:
                return "hang"
            except Exception as e:  # noqa
                return "foreign:" + type(e).__name__
    return scenario


def recvseq_scenario(first, k, fr2, cutset):
    """Two receives on ONE Socket: the first gets first[:k] (k None: the whole frame) and, if cut short, ends in a timeout;
    then frame fr2 arrives and is received under chunk choices.  Outcome: what the second receive returned."""
    import pycomm3.socket_ as S
    from pycomm3.exceptions import CommError

    def scenario(ctx):
        w = net.World(SinkTarget(), ctx, chunk_choices=True, cutset=cutset, rx_end="timeout", io_budget=len(first) + len(fr2) + 16)
        with w:
            sk = S.Socket()
            sk.connect("10.0.0.1", 44818)
            sk.sock.rx += first if k is None else first[:k]
            w.chunk_choices = False
            try:
                r1 = sk.receive()
                one = "frame" if r1 == first and k is None else "wrong-first"
            except CommError:
                one = "CommError"
            except BudgetExceeded:
                return "hang-first"
            except Exception as e:  # noqa
                return "foreign-first:" + type(e).__name__
            if one != ("frame" if k is None else "CommError"):
                return "first:" + one
            w.chunk_choices = True
            sk.sock.rx += fr2
            try:
                r = sk.receive()
                return "frame" if r == fr2 else "wrong-bytes:%d" % len(r)
            except CommError:
                return "CommError"
            except BudgetExceeded:
                return "hang"
            except Exception as e:  # noqa
                return "foreign:" + type(e).__name__
    return scenario


def send_scenario(msg, cutset, fault=None):
    import pycomm3.socket_ as S
    from pycomm3.exceptions import CommError

    def scenario(ctx):
        w = net.World(SinkTarget(), ctx, send_choices=True, send_cutset=cutset, io_budget=len(msg) + 8, faults=fault)
        with w:
            sk = S.Socket()
            sk.connect("10.0.0.1", 44818)
            w.arm(fault)
            try:
                n = sk.send(msg)
                if bytes(w.accepted) == msg and n == len(msg):
                    return "delivered"
                return "wrong-bytes:%d/%r" % (len(w.accepted), n)
            except CommError:
                # whatever was accepted must be a prefix of the message, in order
                return "CommError" if msg.startswith(bytes(w.accepted)) else "CommError+garbled"
            except BudgetExceeded:
                return "hang"
            except Exception as e:  # noqa
                return "foreign:" + type(e).__name__
    return scenario


def shards(tier, seed):
    sh = []
    for L in FRAME_LENGTHS:
        sh.append(("recv", L))
        sh.append(("recvfault", L))
    sh += [("send", n) for n in (1, 2, 3, 24, 28, 64, 300, 4002, 4096, 4097, 8200, 65535)]
    sh += [("recvseq", L1, L2) for L1 in (0, 4, 300) for L2 in (0, 3, 40, 256)]
    sh += [("recv", 4, "debuglog"), ("recvfault", 0, "debuglog"), ("send", 24, "debuglog"), ("recvseq", 4, 3, "debuglog"), ("recvfault", 0, "python-O"), ("recvfault", 300, "python-O"), ("send", 24, "python-O"), ("recv", 3, "python-O")]
    if tier == "thorough":
        # every composition of the 24/25/26-byte frames, sharded by the size of the first chunk
        sh += [("allcomp", L, first) for L in (0, 1, 2) for first in range(24 + L)]
    return sh


def describe(tier, seed):
    return {"bounds": {"frame_body_lengths": FRAME_LENGTHS, "cut_bound_short_frames": 3, "long_frames": "all subsets of the boundary cut set",
                       "all_compositions": "24..26-byte frames (thorough)"}, "exhaustive": True}


def run_explore(rep, label, scenario, bound, expected, replay_base, max_execs=None, root=()):
    check_deterministic(scenario)

    def on_exec(ctx, outcome):
        nontrivial = ctx.deviations > 0 or outcome != "frame"
        rep.case((label, tuple(ctx.choices)), nontrivial=nontrivial, outcome=outcome)
        if outcome not in expected:
            kind = outcome.split(":")[0]
            first = ctx.points[0][0] if ctx.points else ""
            rep.violation(f"{replay_base['op']}/{kind}/{replay_base.get('cls', '')}",
                          f"{label}: choices {ctx.choices!r} ({[p[0] for p in ctx.points]!r:.80}) -> {outcome}; expected one of {sorted(expected)}",
                          dict(replay_base, choices=list(ctx.choices)))
    st = explore(scenario, bound, on_exec, max_execs=max_execs, root=root)
    if st["capped"]:
        rep.cap(f"{label}: max_execs")
    rep.add("explorations", 1)
    return st


def first_chunk_class(fr_len):
    return "frame"


def run_shard(shard, tier, seed):
    rep = Report()
    kind = shard[0]
    if kind == "recv":
        L = shard[1]
        fr = frame(L, seed & 0xFF)
        n = len(fr)
        if n <= 64:
            cutset, bound = None, 3
        else:
            cutset, bound = set(boundary_cuts(n)), len(boundary_cuts(n))
            if n > 2000 and tier != "thorough":
                bound = 3  # quick: every <=3-subset of the boundary cut set for the 64 KiB frame; thorough: every subset
        st = run_explore(rep, f"receive L={L}", recv_scenario(fr, cutset), bound, {"frame"}, {"op": "receive", "L": L, "cls": "segmentation", "mode": "recv", "seed": seed})
        # all-one-byte delivery: force chunk size 1 at every call (default choice is index 0 = everything; 1 = first candidate)
        if n <= 1100:
            one = set(range(1, n))
            sc = recv_scenario(fr, one)
            ctx = Ctx([1] * (n + 2))
            out = sc(ctx)
            rep.case((f"receive L={L}", "one-byte"), outcome=out)
            if out != "frame":
                rep.violation("receive/" + out.split(":")[0] + "/one-byte-chunks", f"receive L={L} delivered one byte per recv -> {out}", {"op": "receive", "L": L, "mode": "onebyte", "seed": seed})
        rep.sample({"frame_len": n, "executions": st["execs"], "bound": bound, "outcomes": st["outcomes"]})
    elif kind == "allcomp":
        L, first = shard[1], shard[2]
        fr = frame(L, seed & 0xFF)
        st = run_explore(rep, f"receive(all compositions) L={L}", recv_scenario(fr, None), len(fr), {"frame"}, {"op": "receive", "L": L, "cls": "segmentation", "mode": "recv", "seed": seed}, root=(first,))
        rep.sample({"frame_len": len(fr), "executions": st["execs"], "all_compositions": True})
    elif kind == "recvfault":
        L = shard[1]
        fr = frame(L, seed & 0xFF)
        n = len(fr)
        points = sorted(set(boundary_cuts(n)) | {0}) if n > 64 else list(range(0, n))
        for k in points:
            for end in ("close", "error", "timeout"):
                cutset = None if n <= 64 else set(boundary_cuts(n))
                sc = recv_scenario(fr, cutset, rx_end=end, trunc=k)
                run_explore(rep, f"receive L={L} {end} after {k} bytes", sc, 1, {"CommError"},
                            {"op": "receive-fault", "L": L, "cls": end, "mode": "fault", "end": end, "k": k, "seed": seed})
        rep.sample({"frame_len": n, "fault_points": len(points), "kinds": ["close", "error", "timeout"]})
    elif kind == "recvseq":
        # history of two receives on one Socket object: whatever happened to the first (complete, or cut after k bytes by a timeout),
        # the second must return exactly the second frame for every segmentation
        L1, L2 = shard[1], shard[2]
        f1, f2 = frame(L1, seed & 0xFF), frame(L2, (seed + 77) & 0xFF)
        n2 = len(f2)
        cutset = None if n2 <= 64 else set(boundary_cuts(n2))
        ks = [None] + sorted({0, 1, 2, 3, 4, 5, 23, 24, len(f1) - 1} & set(range(len(f1))))
        for k in ks:
            run_explore(rep, f"receive L={L2} after a receive of L={L1} " + ("completed" if k is None else f"timed out after {k} bytes"), recvseq_scenario(f1, k, f2, cutset), 2, {"frame"},
                        {"op": "receive-sequence", "L": L2, "L1": L1, "k": k, "cls": "after-complete" if k is None else "after-failed", "mode": "recvseq", "seed": seed})
        rep.sample({"first_frame": len(f1), "second_frame": n2, "first_cut_points": [x for x in ks if x is not None]})
    elif kind == "send":
        n = shard[1]
        msg = bytes((i * 13 + 5) & 0xFF for i in range(n))
        cutset = None if n <= 64 else send_cuts(n)
        # up to 3 partial sends anywhere in the cut set; for the long messages (many cut points) 2, thorough 3
        st = run_explore(rep, f"send n={n}", send_scenario(msg, cutset), 3 if n <= 4002 or tier == "thorough" else 2, {"delivered"}, {"op": "send", "n": n, "cls": "partial", "mode": "send", "seed": seed})
        if n > 4002:
            cutset = set(boundary_cuts(n)) | {n // 2, 4096, n - 2}
        # faults: zero return / error at the k-th OS send call, after 0..2 partial sends
        for k in range(0, 4):
            for f in ("send_zero", "send_zero_forever", "send_err", "send_partial", "send_timeout"):
                sc = send_scenario(msg, cutset, fault={k: f})
                exp = {"CommError"} | ({"delivered"} if True else set())
                run_explore(rep, f"send n={n} {f}@{k}", sc, 2, exp, {"op": "send-fault", "n": n, "cls": f, "mode": "sendfault", "fault": f, "k": k, "seed": seed})
        rep.sample({"message_len": n, "executions": st["execs"]})
    return rep


def replay(r):
    from vmc.core.explore import Ctx as C

    mode = r["mode"]
    if mode in ("recv", "onebyte"):
        fr = frame(r["L"], r.get("seed", 0) & 0xFF)
        n = len(fr)
        if mode == "onebyte":
            sc, ch = recv_scenario(fr, set(range(1, n))), [1] * (n + 2)
        else:
            sc, ch = recv_scenario(fr, None if n <= 64 else set(boundary_cuts(n))), r["choices"]
    elif mode == "recvseq":
        f1, f2 = frame(r["L1"], r.get("seed", 0) & 0xFF), frame(r["L"], (r.get("seed", 0) + 77) & 0xFF)
        sc, ch = recvseq_scenario(f1, r["k"], f2, None if len(f2) <= 64 else set(boundary_cuts(len(f2)))), r["choices"]
    elif mode == "fault":
        fr = frame(r["L"], r.get("seed", 0) & 0xFF)
        n = len(fr)
        sc, ch = recv_scenario(fr, None if n <= 64 else set(boundary_cuts(n)), rx_end=r["end"], trunc=r["k"]), r["choices"]
    else:
        n = r["n"]
        msg = bytes((i * 13 + 5) & 0xFF for i in range(n))
        cutset = None if n <= 64 else send_cuts(n)
        if n > 4002 and mode == "sendfault":
            cutset = set(boundary_cuts(n)) | {n // 2, 4096, n - 2}
        fault = {r["k"]: r["fault"]} if mode == "sendfault" else None
        sc, ch = send_scenario(msg, cutset, fault), r["choices"]
    ctx = C(ch)
    out = sc(ctx)
    print("choices:", ctx.choices, "\npoints :", [p[0] for p in ctx.points], "\noutcome:", out)
    good = {"recv": {"frame"}, "onebyte": {"frame"}, "fault": {"CommError"}, "send": {"delivered"}, "sendfault": {"CommError", "delivered"}}[mode]
    return out in good

"""Reference semantics of LogixDriver request strings, and request alphabets derived from a project model.

Shared by C01-C04, C13, C17.  The evaluator interprets a request directly on the project's memory
(vmc/ref/projects.py) following docs/usage/logixdriver.rst - it shares no code with the controller's
EPATH resolver in vmc/ref/logix.py, and none with pycomm3.
"""
import re
import struct

from vmc.ref import codec as R
from vmc.ref.projects import ATOMS, TypeDef, type_desc, type_name, type_size, bools_of

INT_TYPES = {"SINT": 8, "INT": 16, "DINT": 32, "LINT": 64, "USINT": 8, "UINT": 16, "UDINT": 32, "ULINT": 64}


class Bad(Exception):
    """The request cannot succeed (reference verdict), with a class label."""

    def __init__(self, why):
        self.why = why


class Target_:
    """What a request addresses."""

    __slots__ = ("tag", "typ", "offset", "start", "count", "bit", "kind", "extent", "explicit")


def parse_request(project, text):
    """-> Target_ ; raises Bad(why)."""
    m = re.fullmatch(r"(.*?)(?:\{([^{}]*)\})?", text, flags=re.S)
    body, cnt = m.group(1), m.group(2)
    explicit = cnt is not None
    if explicit:
        if not re.fullmatch(r"\d+", cnt or ""):
            raise Bad("malformed-count")
        count = int(cnt)
        if count < 1:
            raise Bad("zero-count")
    else:
        count = 1
    parts = body.split(".")
    if parts[0].startswith("Program:"):
        if len(parts) < 2:
            raise Bad("unknown-tag")
        parts = [parts[0] + "." + parts[1]] + parts[2:]
    bit = None
    if len(parts) > 1 and re.fullmatch(r"\d+", parts[-1]):
        bit = int(parts.pop())

    def split_idx(p):
        mm = re.fullmatch(r"([^\[\]]*)(?:\[([^\[\]]*)\])?", p)
        if not mm:
            raise Bad("malformed-index")
        idx = None
        if mm.group(2) is not None:
            if not re.fullmatch(r"\d+(,\d+)*", mm.group(2)):
                raise Bad("malformed-index")
            idx = [int(x) for x in mm.group(2).split(",")]
        return mm.group(1), idx

    bname, idx = split_idx(parts[0])
    tag = project.find(bname)
    if tag is None or tag.typ is None or tag not in project.user_tags():
        raise Bad("unknown-tag")
    typ, dims, off = tag.typ, tag.dims, 0
    t = Target_()
    t.tag, t.bit, t.explicit = tag, bit, explicit
    start, extent, indexed = 0, (tag.elements if dims else 1), False
    level = 0
    while True:
        if typ == "DWORD" and dims:
            nbits = 32
            for d in dims:
                nbits *= d
            if idx is not None:
                if len(idx) != 1:
                    raise Bad("index-count")
                if idx[0] >= nbits:
                    raise Bad("index-out-of-range")
            if level + 1 < len(parts):
                raise Bad("member-of-atomic")
            if bit is not None:
                raise Bad("bit-of-bool")
            t.kind, t.typ, t.offset = "boolarray", "DWORD", off
            t.start = idx[0] if idx is not None else 0
            t.count, t.extent = count, nbits
            if t.start + count > nbits:
                raise Bad("count-beyond-end")
            return t
        if idx is not None:
            if not dims or len(idx) != len(dims):
                raise Bad("index-count")
            flat = 0
            for ix, dm in zip(idx, dims):
                if ix >= dm:
                    raise Bad("index-out-of-range")
                flat = flat * dm + ix
            total = 1
            for dm in dims:
                total *= dm
            off += flat * type_size(typ)
            start, extent, indexed = flat, total - flat, True
            dims = ()
        level += 1
        if level >= len(parts):
            break
        if not isinstance(typ, TypeDef):
            raise Bad("member-of-atomic")
        if dims:
            raise Bad("member-of-unindexed-array")
        mname, idx = split_idx(parts[level])
        mem = typ.member(mname)
        if mem is None or typ.hides(mem):
            raise Bad("unknown-member")
        off += mem.offset
        if mem.is_bit:
            if idx is not None or level + 1 < len(parts):
                raise Bad("member-of-atomic")
            if bit is not None:
                raise Bad("bit-of-bool")
            if count != 1:
                raise Bad("count-beyond-end")
            t.kind, t.typ, t.offset, t.start, t.count, t.extent = "boolmember", "BOOL", off, 0, 1, 1
            t.bit = mem.bit
            return t
        typ = mem.typ
        dims = (mem.dim,) if mem.dim else ()
        start, extent, indexed = 0, (mem.dim if mem.dim else 1), False
    if bit is not None:
        if isinstance(typ, TypeDef) or typ not in INT_TYPES:
            raise Bad("bit-of-non-integer")
        if bit >= INT_TYPES[typ]:
            raise Bad("bit-out-of-range")
        if explicit and count != 1:
            raise Bad("count-on-bit")
        t.kind = "bit"
    else:
        t.kind = "struct" if isinstance(typ, TypeDef) else "atomic"
        if isinstance(typ, TypeDef) and typ.string_capacity is not None:
            t.kind = "string"
    if count > extent:
        raise Bad("count-beyond-end")
    t.typ, t.offset, t.start, t.count, t.extent = typ, off, start, count, extent
    return t


def tag_echo(text):
    return re.sub(r"\{[^{}]*\}$", "", text)


def read_expect(project, text):
    """-> ('ok', value, type string, tag name) | ('fail', why)."""
    try:
        t = parse_request(project, text)
    except Bad as b:
        return ("fail", b.why)
    if t.tag.access == 3:
        return ("fail", "no-access")
    data = t.tag.data
    name = tag_echo(text)
    if t.kind == "boolarray":
        nbytes = t.extent // 8
        bits = bools_of(bytes(data[t.offset : t.offset + nbytes]))
        if t.count == 1:
            return ("ok", bits[t.start], "BOOL", name)
        return ("ok", bits[t.start : t.start + t.count], f"BOOL[{t.count}]", name)
    if t.kind == "boolmember":
        return ("ok", bool(data[t.offset] >> t.bit & 1), "BOOL", name)
    sz = type_size(t.typ)
    d = type_desc(t.typ)
    if t.kind == "bit":
        v, _ = R.dec(d, bytes(data[t.offset : t.offset + sz]), 0)
        return ("ok", bool(v >> t.bit & 1) if v >= 0 else bool((v + (1 << (8 * sz))) >> t.bit & 1), "BOOL", name)
    vals = []
    for i in range(t.count):
        v, _ = R.dec(d, bytes(data[t.offset + i * sz : t.offset + (i + 1) * sz]), 0)
        if t.typ == "BOOL":
            v = bool(data[t.offset + i])
        vals.append(v)
    tn = type_name(t.typ)
    if t.count == 1:
        return ("ok", vals[0], tn, name)
    return ("ok", vals, f"{tn}[{t.count}]", name)


def request_bytes(project, text):
    """Number of data bytes the controller must return for a valid read request (to know the packet kind)."""
    t = parse_request(project, text)
    if t.kind == "boolarray":
        return 4 * ((t.start + t.count + 31) // 32)
    if t.kind in ("boolmember",):
        return 1
    if t.kind == "bit":
        return type_size(t.typ)
    return type_size(t.typ) * t.count


# ---------------------------------------------------------------- alphabets
def some(n, full_limit=6):
    if n <= full_limit:
        return list(range(n))
    return sorted({0, 1, n // 2, n - 2, n - 1})


def index_tuples(dims):
    if len(dims) == 1:
        return [(i,) for i in some(dims[0])]
    out = []
    import itertools

    total = 1
    for d in dims:
        total *= d
    allt = list(itertools.product(*[range(d) for d in dims]))
    if total <= 30:
        return allt
    keep = sorted({allt[0], allt[1], allt[len(allt) // 2], allt[-2], allt[-1]})
    return keep


def brk(t):
    return "[" + ",".join(str(x) for x in t) + "]"


def read_requests(project, depth=4, bits="boundary"):
    """(request text, class) pairs derived from the project model."""
    out = []

    def bits_of(typ, prefix, cls, all_bits):
        w = INT_TYPES[typ]
        base = {0, 1, 7, 8, 15, 16, 30, 31, 32, 33, 62, 63}
        # bit numbers that share digits with a name ending in digits ('plain2.2', 'plain2.12', 'd1.10', 'word10.0'): text surgery on the request string shows here
        import re as _re
        tail = _re.search(r"(\d+)\]?$", prefix.split(".")[-1])
        if tail:
            k = int(tail.group(1)[-1])
            base |= {k, 10 + k, 10 * k % 64, 20 + k, int(tail.group(1)) % 64}
        sel = range(w) if (all_bits and w <= 16) else sorted(base & set(range(w)))
        for b in sel:
            out.append((f"{prefix}.{b}", cls + "/bit"))

    def walk(prefix, typ, dims, lvl, cls):
        if typ == "DWORD" and dims:
            nb = 32 * dims[0]
            out.append((prefix, cls + "/boolarray-first"))  # reading: first element; writing: unspecified, not used
            for i in sorted({0, 1, 31, 32, 33, 63, 64, nb - 1} & set(range(nb))):
                out.append((f"{prefix}[{i}]", cls + "/boolarray-elem"))
            for s in sorted({0, 1, 31, 32, 33} & set(range(nb))):
                for n in sorted({1, 2, 31, 32, 33, 64, nb - s} & set(range(1, nb - s + 1))):
                    out.append((f"{prefix}[{s}]{{{n}}}", cls + "/boolarray-range"))
            out.append((f"{prefix}{{{nb}}}", cls + "/boolarray-range"))
            return
        out.append((prefix, cls + ("/array-first" if dims else "")))
        if dims:
            total = 1
            for d in dims:
                total *= d
            for n in sorted({1, 2, total - 1, total} & set(range(1, total + 1))):
                out.append((f"{prefix}{{{n}}}", cls + "/slice"))
            tuples = index_tuples(dims)
            for it in tuples:
                e = prefix + brk(it)
                flat = 0
                for ix, dm in zip(it, dims):
                    flat = flat * dm + ix
                out.append((e, cls + "/element"))
                rem = total - flat
                for n in sorted({2, rem} & set(range(2, rem + 1))):
                    out.append((f"{e}{{{n}}}", cls + "/slice"))
            # members / bits through a few elements only
            for it in tuples[:2] + tuples[-1:]:
                walk_elem(prefix + brk(it), typ, lvl, cls + "/element")
        else:
            walk_elem(prefix, typ, lvl, cls, emit=False)

    def walk_elem(prefix, typ, lvl, cls, emit=False):
        if isinstance(typ, TypeDef):
            if typ.string_capacity is not None or lvl >= depth:
                return
            for m in typ.visible:
                mc = cls + "/member"
                if m.is_bit:
                    out.append((f"{prefix}.{m.name}", mc + "-bool"))
                else:
                    walk(f"{prefix}.{m.name}", m.typ, (m.dim,) if m.dim else (), lvl + 1, mc)
        elif typ in INT_TYPES:
            bits_of(typ, prefix, cls, bits == "all")

    for t in project.user_tags():
        if t.typ is None:
            continue
        base = "struct" if isinstance(t.typ, TypeDef) else "atomic"
        if isinstance(t.typ, TypeDef) and t.typ.string_capacity is not None:
            base = "string"
        if t.scope:
            base = "program-" + base
        walk(t.full_name, t.typ, t.dims, 0, base)
    # de-duplicate, keep order; the class label is shortened to base kind + depth marker + leaf class
    seen = set()
    res = []
    for text, cls in out:
        if text not in seen:
            seen.add(text)
            parts = cls.split("/")
            leaf = parts[-1] if len(parts) > 1 else "whole"
            nested = "nested-" if any(p.startswith("member") for p in parts[1:-1]) or (len(parts) > 2 and parts[-1].startswith("member")) else ""
            inmember = "member-" if any(p.startswith("member") for p in parts[1:]) and not leaf.startswith("member") else ""
            res.append((text, f"{parts[0]}:{nested}{inmember}{leaf}"))
    return res


def same_value(a, b):
    from .typespace import same_value as sv

    return sv(a, b)


# ---------------------------------------------------------------- writes
class WriteExpect:
    """Reference effect of one write request on the addressed tag."""

    def __init__(self, ok, why=None):
        self.ok, self.why = ok, why
        self.tag = None
        self.kind = None  # 'write' | 'rmw'
        self.typestr = None
        self.name = None
        self.nbytes = 0
        self._apply = None

    def after(self, prior):
        """(expected image, care mask) of the whole tag after the write, given its prior image."""
        return self._apply(bytes(prior))


def _enc_elem(typ, v):
    """Reference encoding of one element; returns (bytes, care mask)."""
    d = type_desc(typ)
    if isinstance(typ, TypeDef) and typ.string_capacity is not None:
        if not isinstance(v, str):
            raise R.RefError("string value must be str")
        cap = typ.string_capacity
        s = v[:cap]
        data = s.encode("latin-1") if all(ord(c) < 256 for c in s) else None
        if data is None:
            raise R.RefError("character outside Latin-1")
        img = struct.pack("<I", len(data)) + data + bytes(typ.size - 4 - len(data))
        mask = b"\xff" * (4 + len(data)) + bytes(typ.size - 4 - len(data))
        return img, mask
    if isinstance(typ, TypeDef):
        if not isinstance(v, dict):
            raise R.RefError("structure value must be a dict")
        img = bytearray(typ.size)
        mask = bytearray(typ.size)
        for m in typ.members:
            if typ.hides(m):
                continue
            if m.name not in v:
                raise R.RefError(f"missing member {m.name}")
            if m.is_bit:
                if v[m.name]:
                    img[m.offset] |= 1 << m.bit
                mask[m.offset] |= 1 << m.bit
                continue
            esz = type_size(m.typ)
            vals = v[m.name]
            if m.dim:
                if m.typ == "DWORD":
                    bits = list(vals)
                    if len(bits) != 32 * m.dim:
                        raise R.RefError("wrong number of BOOLs")
                    for i, b in enumerate(bits):
                        if b:
                            img[m.offset + i // 8] |= 1 << (i % 8)
                    mask[m.offset : m.offset + 4 * m.dim] = b"\xff" * (4 * m.dim)
                    continue
                vals = list(vals)
                if len(vals) < m.dim:
                    raise R.RefError("too few elements")
                for i in range(m.dim):
                    e, k = _enc_elem(m.typ, vals[i])
                    img[m.offset + i * esz : m.offset + (i + 1) * esz] = e
                    mask[m.offset + i * esz : m.offset + (i + 1) * esz] = k
            else:
                e, k = _enc_elem(m.typ, vals)
                img[m.offset : m.offset + esz] = e
                mask[m.offset : m.offset + esz] = k
        return bytes(img), bytes(mask)
    if typ == "BOOL":
        return (b"\x01" if v else b"\x00"), b"\xff"
    if typ == "DWORD":
        bits = list(v)
        if len(bits) != 32:
            raise R.RefError("DWORD needs 32 BOOLs")
    e = R.enc(d, v)
    return e, b"\xff" * len(e)


def write_expect(project, text, value):
    try:
        t = parse_request(project, text)
    except Bad as b:
        return WriteExpect(False, b.why)
    if t.tag.access in (2, 3):
        return WriteExpect(False, "no-write-access")
    w = WriteExpect(True)
    w.tag, w.name = t.tag, tag_echo(text)
    total = len(t.tag.data)
    try:
        if t.kind == "boolarray":
            single = t.count == 1
            if single:
                if isinstance(value, (list, tuple, bytes, dict, str)):
                    return WriteExpect(False, "unencodable")
                w.kind, w.typestr, w.nbytes = "rmw", "BOOL", 4
                bi = t.start

                def apply(prior, bi=bi, off=t.offset, v=bool(value)):
                    img = bytearray(prior)
                    if v:
                        img[off + bi // 8] |= 1 << (bi % 8)
                    else:
                        img[off + bi // 8] &= ~(1 << (bi % 8)) & 0xFF
                    return bytes(img), b"\xff" * len(img)
            else:
                if t.start % 32 or t.count % 32:
                    return WriteExpect(False, "misaligned-bool-array")
                vals = list(value)
                if len(vals) < t.count:
                    return WriteExpect(False, "too-short")
                vals = vals[: t.count]
                w.kind, w.typestr, w.nbytes = "write", f"BOOL[{t.count}]", t.count // 8
                data = bytearray(t.count // 8)
                for i, b in enumerate(vals):
                    if b:
                        data[i // 8] |= 1 << (i % 8)

                def apply(prior, off=t.offset + t.start // 8, data=bytes(data)):
                    img = bytearray(prior)
                    img[off : off + len(data)] = data
                    return bytes(img), b"\xff" * len(img)
        elif t.kind == "boolmember":
            if isinstance(value, (list, tuple, bytes, dict, str)):
                return WriteExpect(False, "unencodable")
            w.kind, w.typestr, w.nbytes = "write", "BOOL", 1

            def apply(prior, off=t.offset, bit=t.bit, v=bool(value)):
                img = bytearray(prior)
                if v:
                    img[off] |= 1 << bit
                else:
                    img[off] &= ~(1 << bit) & 0xFF
                return bytes(img), b"\xff" * len(img)
        elif t.kind == "bit":
            if isinstance(value, (list, tuple, bytes, dict, str)):
                return WriteExpect(False, "unencodable")
            w.kind, w.typestr, w.nbytes = "rmw", "BOOL", type_size(t.typ)

            def apply(prior, off=t.offset, bit=t.bit, v=bool(value)):
                img = bytearray(prior)
                if v:
                    img[off + bit // 8] |= 1 << (bit % 8)
                else:
                    img[off + bit // 8] &= ~(1 << (bit % 8)) & 0xFF
                return bytes(img), b"\xff" * len(img)
        else:
            sz = type_size(t.typ)
            tn = type_name(t.typ)
            w.kind = "write"
            w.typestr = tn if t.count == 1 else f"{tn}[{t.count}]"
            w.nbytes = sz * t.count
            if isinstance(value, (bytes, bytearray)):
                raw = bytes(value)
                if len(raw) != sz * t.count:
                    return WriteExpect(False, "raw-length")
                data, mask = raw, b"\xff" * len(raw)
            elif t.count == 1:
                data, mask = _enc_elem(t.typ, value)
            else:
                if isinstance(value, (str, dict)) or not hasattr(value, "__len__"):
                    return WriteExpect(False, "unencodable")
                vals = list(value)
                if len(vals) < t.count:
                    return WriteExpect(False, "too-short")
                parts = [_enc_elem(t.typ, x) for x in vals[: t.count]]
                data = b"".join(p[0] for p in parts)
                mask = b"".join(p[1] for p in parts)

            def apply(prior, off=t.offset, data=data, mask=mask):
                img = bytearray(prior)
                care = bytearray(b"\xff" * len(img))
                img[off : off + len(data)] = data
                care[off : off + len(mask)] = mask
                return bytes(img), bytes(care)
    except (R.RefError, TypeError, ValueError, AttributeError):
        return WriteExpect(False, "unencodable")
    w._apply = apply
    return w


def boundary_values(typ):
    """Write values for one element of `typ` (in domain)."""
    if isinstance(typ, TypeDef):
        if typ.string_capacity is not None:
            cap = typ.string_capacity
            return ["", "a", "x" * max(cap - 1, 0), "y" * cap, "z" * (cap + 1), "w" * (cap + 40), "\xe9\xff\x01"[: max(1, min(3, cap))]]
        vals = [struct_value(typ, k) for k in range(3)]
        nz = negzero(typ, vals[0])
        return vals + ([nz] if nz is not None else [])
    if typ == "BOOL":
        return [True, False, 1, 0]
    if typ in ("REAL", "LREAL"):
        return [0.0, -1.5, 3.4028234663852886e38 if typ == "REAL" else 1.7976931348623157e308, 1e-45 if typ == "REAL" else 5e-324, 100.25, 7, -0.0]
    if typ == "DWORD":
        return [[bool((0xA5A5A5A5 >> i) & 1) for i in range(32)]]
    bits = INT_TYPES[typ]
    signed = ATOMS[typ][2][2]
    lo, hi = (-(1 << (bits - 1)), (1 << (bits - 1)) - 1) if signed else (0, (1 << bits) - 1)
    return sorted({lo, hi, 0, 1, hi - 1, lo + 1, 0x5A & hi, (0x1234567812345678 & hi)})


def struct_value(typ, k):
    v = {}
    for i, m in enumerate(typ.visible):
        if m.is_bit:
            v[m.name] = bool((k + i) % 2)
            continue
        if m.dim:
            if m.typ == "DWORD":
                v[m.name] = [bool((k + i + j) % 3 == 0) for j in range(32 * m.dim)]
            else:
                v[m.name] = [elem_value(m.typ, k + i + j) for j in range(m.dim)]
        else:
            v[m.name] = elem_value(m.typ, k + i)
    return v


def negzero(typ, v):
    """The structure value `v` with every REAL / LREAL member (any depth) set to -0.0, a value that is falsy and equal to 0.0 but whose
    encoding is not all zero bytes.  None when the type has no such member."""
    if not isinstance(typ, TypeDef) or typ.string_capacity is not None or not isinstance(v, dict):
        return None
    out, changed = dict(v), False
    for m in typ.visible:
        if m.is_bit or m.name not in v:
            continue
        if m.typ in ("REAL", "LREAL"):
            out[m.name] = [-0.0] * m.dim if m.dim else -0.0
            changed = True
        elif isinstance(m.typ, TypeDef):
            if m.dim:
                elems = [negzero(m.typ, e) for e in v[m.name]]
                if any(e is not None for e in elems):
                    out[m.name] = [e if e is not None else o for e, o in zip(elems, v[m.name])]
                    changed = True
            else:
                e = negzero(m.typ, v[m.name])
                if e is not None:
                    out[m.name], changed = e, True
    return out if changed else None


def overlong(typ, v):
    """The structure value `v` with every array member (at any depth, BOOL arrays excepted: their length is checked) one element
    too long; the extra element is cut off, the rest is written as given.  None when the type has no such member."""
    if not isinstance(typ, TypeDef) or typ.string_capacity is not None or not isinstance(v, dict):
        return None
    out, changed = dict(v), False
    for m in typ.visible:
        if m.is_bit or m.name not in v:
            continue
        if m.dim and m.typ != "DWORD":
            elems = []
            for e in v[m.name]:
                oe = overlong(m.typ, e)
                changed = changed or oe is not None
                elems.append(e if oe is None else oe)
            out[m.name] = elems + [elems[0]]
            changed = True
        elif not m.dim:
            oe = overlong(m.typ, v[m.name])
            if oe is not None:
                out[m.name], changed = oe, True
    return out if changed else None


def elem_value(typ, k):
    vals = boundary_values(typ)
    if isinstance(typ, TypeDef) and typ.string_capacity is not None:
        vals = vals[:4]
    return vals[k % len(vals)]

"""C01 — tag reads return exactly what the controller holds (E3 over requests x E1 over controller answers)."""
from vmc.core.explore import Ctx, explore
from vmc.core.report import Report
import struct

from vmc.ref import enip, net, logix, projgen, wire as W
from vmc.ref.projects import fill_image
from . import logixreq as Q
from .harness import call

META = {
    "rule": "personalities {v17, v20, v21, v32, m800} x connection {4000, 500} x projects {P0 = demo project rebuilt from tests/pycomm3.L5X with its recorded memory, P1 atoms, P2 structures, P3 scopes} x memory images "
    "x the read-request alphabet derived from the project model (every tag; every member recursively; [i] for every index of small "
    "arrays and {0,1,mid,last} of large ones; index tuples of 2-/3-D arrays; {n} for n in {1,2,len-1,len}; .bit for every bit of "
    "SINT/INT leaves and boundary bits of DINT/LINT; BOOL-array indices and ranges around DWORD boundaries; program-scoped "
    "spellings): every request alone, all ordered pairs over one request per class (duplicates included), and the whole alphabet "
    "in one call. Controller choice points (fragment length of every fragmented reply: as much as fits / 1 byte / 1 element / half / "
    "capacity-1; BOOL encoded 0xFF or 0x01) explored with deviation bound 1 (quick) / 2 (thorough). Oracle: value, type string, "
    "tag name and truthiness vs the reference interpretation of controller memory. Non-trivial = every executed read call; "
    "distinct = distinct (world, image, request list, choice vector).",
    "explanation": "bounded-exhaustive enumeration of requests with deviation-bounded exploration of the controller's answers",
    "assumptions": [
        "documented result shapes: {1} -> scalar with the bare type name, {n>1} -> list typed T[n], bit / BOOL element -> BOOL, BOOL range -> BOOL[n], tag name = request minus {n}",
        "a request without {n} on an array reads its first element",
        "values outside the typed memory images and projects outside the family are not covered",
    ],
}
PROJECTS = ("P1", "P2", "P3")
PERS = ("v17", "v20", "v21", "v32", "m800")
CONNS = (4000, 500)


def open_world(pname, pers, conn, image, choices=("rfrag", "boolbyte"), reduced=None):
    import pycomm3

    kw = {}
    if pname in ("P1", "P2") and reduced is not None:
        kw["reduced"] = reduced
    proj = projgen.build(pname, image, **kw)
    ctl = logix.LogixController(proj, pers, None, choices=choices)
    pol = enip.Policy(large_fo="accept" if conn == 4000 else "refuse08")
    t = enip.Target(ctl, pol, keep_cip=False)
    w = net.World(t, io_budget=10**9)
    w.__enter__()
    d = pycomm3.LogixDriver("10.0.0.1")
    r = call(d.open)
    return proj, ctl, t, w, d, r


def judge(got, want, text):
    """-> list of (clause, detail) problems for one Tag against the reference expectation."""
    probs = []
    if want[0] != "ok":
        return probs
    _, val, typ, name = want
    try:
        truthy = bool(got)
    except Exception:  # noqa
        truthy = None
    if not hasattr(got, "value"):
        return [("shape", f"result is {got!r:.80}")]
    if not truthy:
        return [("falsy", f"error {got.error!r:.100}")]
    if not Q.same_value(got.value, val):
        probs.append(("value", f"value {got.value!r:.100}, controller holds {val!r:.100}"))
    if got.type != typ:
        probs.append(("type", f"type {got.type!r}, documented {typ!r}"))
    if got.tag != name:
        probs.append(("name", f"tag {got.tag!r}, expected {name!r}"))
    return probs


# ---------------------------------------------------------------- Micro800: strings are atomic, counted types (no LEN/DATA structure)
M800_STRINGS = {
    # tag: (type name, type code, length-prefix bytes, element values)
    "s_one": ("SHORT_STRING", 0xDA, 1, ["pump"]),
    "s_empty": ("SHORT_STRING", 0xDA, 1, [""]),
    "s_ary": ("SHORT_STRING", 0xDA, 1, ["", "a", "", "x" * 80, "\xe9\xff", ""]),
    "w_ary": ("STRING", 0xD0, 2, ["first", "", "third", ""]),
    "s_last_empty": ("SHORT_STRING", 0xDA, 1, ["abc", ""]),
}


class M800StringDevice(enip.IdentityDevice):
    """A tiny tag server for Read Tag on symbolic paths: counted strings, elements of different encoded sizes."""

    def __init__(self):
        super().__init__()
        self.reads = []

    def handle(self, req, info):
        p = req.path
        if req.service == 0x4C and p and p[0][0] == "symbol" and p[0][1] in M800_STRINGS:
            tname, code, lw, vals = M800_STRINGS[p[0][1]]
            idx = 0
            if len(p) > 1:
                if len(p) != 2 or p[1][0] != "member":
                    return W.build_mr_reply(req.service, 0x04)
                idx = p[1][1]
            if len(req.data) != 2:
                return W.build_mr_reply(req.service, 0x13 if len(req.data) < 2 else 0x15)
            cnt = struct.unpack("<H", req.data)[0]
            if cnt == 0 or idx + cnt > len(vals):
                return W.build_mr_reply(req.service, 0xFF, [0x2105])
            self.reads.append((p[0][1], idx, cnt))
            body = b"".join(len(v).to_bytes(lw, "little") + v.encode("latin-1") for v in vals[idx : idx + cnt])
            return W.build_mr_reply(req.service, 0, [], struct.pack("<H", code) + body)
        return super().handle(req, info)


def m800_strings_shard(rep):
    import pycomm3
    from pycomm3 import cip as C

    dev = M800StringDevice()
    t = enip.Target(dev, enip.Policy(large_fo="refuse08"), dict(W.DEFAULT_IDENTITY, product_name="2080-LC50-48QWB", major=12), keep_cip=False)
    with net.World(t, io_budget=10**7):
        d = pycomm3.LogixDriver("10.0.0.1", init_tags=False)
        o = call(d.open)
        for i, (name, (tname, code, lw, vals)) in enumerate(M800_STRINGS.items()):
            n = len(vals)
            d._tags[name] = {"tag_name": name, "dim": 1 if n > 1 else 0, "instance_id": 10 + i, "tag_type": "atomic", "data_type": tname, "data_type_name": tname,
                             "type_class": C.Array(n, getattr(C, tname)) if n > 1 else getattr(C, tname),  # as the tag-list upload builds it
                             "dimensions": [n if n > 1 else 0, 0, 0], "alias": False, "external_access": "Read/Write"}
        reqs = []
        for name, (tname, code, lw, vals) in M800_STRINGS.items():
            n = len(vals)
            if n == 1:
                reqs.append((name, vals[0], tname))
                continue
            for i in range(n):
                reqs.append((f"{name}[{i}]", vals[i], tname))
                for c in range(2, n - i + 1):
                    reqs.append((f"{name}[{i}]{{{c}}}", vals[i : i + c], f"{tname}[{c}]"))
            reqs.append((f"{name}{{{n}}}", vals, f"{tname}[{n}]"))
        calls = [[r] for r in reqs] + [reqs, list(reversed(reqs))]
        for lst in calls:
            out = call(d.read, *[r[0] for r in lst])
            res = out[1] if out[0] == "ok" else None
            res = res if isinstance(res, list) else [res]
            for (text, want, wtyp), g in zip(lst, res if out[0] == "ok" else [None] * len(lst)):
                probs = []
                if out[0] != "ok":
                    probs.append(("exception", f"read raised {out!r:.100}"))
                elif not bool(g):
                    probs.append(("falsy", f"error {getattr(g, 'error', None)!r:.80}"))
                elif g.value != want:
                    probs.append(("value", f"value {g.value!r:.80}, controller holds {want!r:.80}"))
                elif g.type != wtyp:
                    probs.append(("type", f"type {g.type!r}, documented {wtyp!r}"))
                rep.case(("m800-strings", text, len(lst)), outcome="ok" if not probs else probs[0][0])
                for clause, detail in probs:
                    empties = "with-empty-string" if (want == "" or (isinstance(want, list) and "" in want)) else "non-empty"
                    rep.violation(f"read/micro800-counted-string/{clause}/{empties}", f"Micro800, open() -> {o!r:.40}: read({text!r}) in a call of {len(lst)}: {detail}", {"cfg": ["m800-strings"], "image": 0, "requests": [text], "choices": []})
        call(d.close)
    rep.sample({"micro800_counted_strings": list(M800_STRINGS), "requests": len(reqs)})


def shards(tier, seed):
    sh = [("m800-strings", "-", "m800", 500), ("lists", "P2", "v20", 500, "debuglog"), ("single", "P1", "v32", 4000, "debuglog"), ("lists", "P3", "m800", 500, "debuglog")]
    for pn in PROJECTS:
        for pers in PERS:
            for conn in CONNS:
                sh.append(("single", pn, pers, conn))
                sh.append(("lists", pn, pers, conn))
    # P0: the demo project rebuilt from tests/pycomm3.L5X with the memory recorded there
    for pers in ("v20", "v32"):
        for conn in CONNS:
            sh.append(("single", "P0", pers, conn))
            sh.append(("lists", "P0", pers, conn))
    # P4: several hundred tags; template ids and symbol instance ids at their 8/16/32-bit boundaries
    for pers in ("v20", "v21", "v32"):
        sh.append(("single", "P4", pers, 4000 if pers != "v21" else 500))
        sh.append(("lists", "P4", pers, 500 if pers != "v21" else 4000))
    sh.append(("online", "P0", "v20", 500))
    # two drivers in one process on two controllers whose equally named tags differ in instance id, type layout and content
    for pers in ("v20", "v32"):
        sh.append(("twins", "P1", pers, 4000))
    return sh


def describe(tier, seed):
    return {"bounds": {"deviation_bound": 2 if tier == "thorough" else 1, "images": "2 (seed-rotated) quick / 6 thorough", "projects": PROJECTS, "personalities": PERS, "connection_sizes": CONNS}, "exhaustive": True}


def images_for(tier, seed):
    if tier == "thorough":
        return [0, 1, 2, 3, -1, -2]
    return [seed % 4, (seed + 1) % 4 if seed % 2 else -2]


def packet_class(proj, text, conn):
    try:
        n = Q.request_bytes(proj, text)
    except Q.Bad:
        return "invalid"
    return "fragmented" if n > conn - 40 else "plain"


def online_shard(rep, pers, conn):
    """The (tag, documented type, value) triples of tests/online, recorded on the real demo PLC, as an independent oracle on P0."""
    import importlib

    proj, ctl, t, w, d, r = open_world("P0", pers, conn, 0)
    try:
        on = importlib.import_module("tests.online")
    except Exception as e:  # noqa
        rep.sample({"online_triples": "tests.online not importable: %r" % (e,)})
        rep.case(("online", "unavailable"), nontrivial=False, outcome="skipped")
        w.__exit__()
        return
    base = on.BASE_ATOMIC_TESTS + on.BASE_ATOMIC_ARRAY_TESTS + on.BASE_STRUCT_TESTS
    triples = [(f"read{tag}", dt, val) for tag, dt, val in base] + [(f"Program:pycomm3.read_prog{tag}", dt, val) for tag, dt, val in base]
    agree = stale = 0
    for tag, dt, val in triples:
        want = Q.read_expect(proj, tag)
        if want[0] != "ok":
            rep.case(("online", tag), nontrivial=False, outcome="not-in-l5x")
            continue  # AOI tags and tags missing from the export
        out = call(d.read, tag)
        probs = [("exception", repr(out)[:100])] if out[0] != "ok" else judge(out[1], want, tag)
        # the recorded expectation, where the L5X memory still holds the value the online test expects
        ref_matches_online = want[2] == dt and (want[1] == val)
        if ref_matches_online:
            agree += 1
        else:
            stale += 1
        rep.case(("online", tag), outcome="ok" if not probs else probs[0][0])
        for clause, detail in probs:
            rep.violation(f"read/online-triple/{clause}", f"P0 {pers}/{conn}: read({tag!r}) {detail}; tests/online expects ({dt!r}, {val!r:.60})", {"cfg": ["P0", pers, conn], "image": 0, "requests": [tag], "choices": []})
    rep.add("online_triples_where_reference_equals_recorded_expectation", agree)
    rep.add("online_triples_with_different_memory_in_the_l5x", stale)
    rep.sample({"online_triples": len(triples), "reference_equals_recorded_expectation": agree, "l5x_memory_differs": stale})
    call(d.close)
    w.__exit__()


def twins_shard(rep, pers, conn):
    """History across driver objects: nothing learned from one controller may leak into requests to another."""
    import pycomm3

    worlds = []
    for k in range(2):
        proj = projgen.build("P1", k, reduced=True)
        tags = list(proj.all_tags())
        if k == 1:  # same names, instance ids permuted
            ids = [t.instance_id for t in tags]
            for t, i in zip(tags, ids[1:] + ids[:1]):
                t.instance_id = i
        ctl = logix.LogixController(proj, pers)
        t = enip.Target(ctl, enip.Policy(large_fo="accept" if conn == 4000 else "refuse08"), keep_cip=False)
        w = net.World(t, io_budget=10**9)
        with w:
            d = pycomm3.LogixDriver(f"10.0.0.{k + 1}")
            o = call(d.open)
        worlds.append((proj, w, d, o))
    reqs = [x for x, c in Q.read_requests(worlds[0][0]) if Q.read_expect(worlds[0][0], x)[0] == "ok"][::3]
    for rnd in range(2):
        for k in (0, 1, 0):
            proj, w, d, o = worlds[k]
            with w:
                for text in reqs:
                    want = Q.read_expect(proj, text)
                    out = call(d.read, text)
                    probs = [("exception", repr(out)[:100])] if out[0] != "ok" else judge(out[1], want, text)
                    rep.case(("twins", pers, k, rnd, text), outcome="ok" if not probs else probs[0][0])
                    for clause, detail in probs:
                        rep.violation(f"read/two-controllers/{clause}", f"driver #{k} (round {rnd}) {pers}: read({text!r}) {detail}", {"cfg": ["P1", pers, conn], "image": k, "requests": [text], "choices": []})
    rep.sample({"two_controllers": pers, "requests_each": len(reqs)})


def run_shard(shard, tier, seed):
    rep = Report()
    if shard[0] == "m800-strings":
        m800_strings_shard(rep)
        return rep
    kind, pn, pers, conn = shard
    if kind == "twins":
        twins_shard(rep, pers, conn)
        return rep
    if kind == "online":
        online_shard(rep, pers, conn)
        return rep
    proj, ctl, t, w, d, r = open_world(pn, pers, conn, 0, reduced=(tier != "thorough"))
    cfg = (pn, pers, conn)
    if r != ("ok", True):
        rep.case((cfg, "open"), outcome="open-failed")
        rep.violation("read/open-failed", f"{cfg}: open() -> {r!r:.120}", {"cfg": list(cfg), "image": 0, "requests": [], "choices": []})
        w.__exit__()
        return rep
    reqs = [(x, c) for x, c in Q.read_requests(proj, bits="all" if tier == "thorough" else "boundary")]
    bound = 2 if tier == "thorough" else 1
    for image in ([0] if pn == "P0" else images_for(tier, seed)):
        if pn != "P0":
            fill_image(proj, image)
        if kind == "single":
            for text, cls in reqs:
                want = Q.read_expect(proj, text)
                if want[0] != "ok":
                    continue

                def scenario(ctx, text=text):
                    ctl.ctx = ctx
                    return call(d.read, text)

                def on_exec(ctx, out, text=text, cls=cls, want=want):
                    if out[0] != "ok":
                        probs = [("exception", f"read raised {out!r:.120}")]
                    else:
                        probs = judge(out[1], want, text)
                    devs = "+".join(sorted({p[0].split("@")[0] for p, c in zip(ctx.points, ctx.choices) if c != p[2]})) or "default"
                    rep.case((cfg, image, text, tuple(ctx.choices)), outcome=("ok:" + __import__("re").sub(r"\d+", "n", str(want[2]))[:24]) if not probs else probs[0][0])
                    for clause, detail in probs:
                        rep.violation(f"read/{packet_class(proj, text, conn)}/{cls}/{clause}/{devs}", f"{cfg} image {image}: read({text!r}) {detail} (controller choices {ctx.choices!r})",
                                      {"cfg": list(cfg), "image": image, "requests": [text], "choices": list(ctx.choices)})
                # a transfer of many dozens of fragments: the fragment-length choices of a *short* transfer cover the same code; default answers only
                pr = Q.parse_request(proj, text) if want[0] == "ok" else None
                big_transfer = pr is not None and pr.kind not in ("bit", "boolmember") and pr.count * Q.type_size(pr.typ) > 16000
                explore(scenario, 0 if big_transfer and tier != "thorough" else (1 if big_transfer else bound), on_exec)
            ctl.ctx = None
        else:
            # one request per class: all ordered pairs (duplicates included), then the whole alphabet in one call
            byclass = {}
            if tier != "thorough":
                # the 68 KB structure is read on its own (shard `single`); in lists it would only multiply fragment traffic
                reqs = [(x, c) for x, c in reqs if not x.startswith("huge1")]
            for text, cls in reqs:
                if Q.read_expect(proj, text)[0] == "ok":
                    byclass.setdefault((cls, packet_class(proj, text, conn)), text)
            alpha = list(byclass.values())
            lists = [(a, b) for a in alpha for b in alpha]
            valid = [x for x, c in reqs if Q.read_expect(proj, x)[0] == "ok"]
            lists.append(tuple(valid))
            lists.append(tuple(reversed(valid)))
            # requests the driver cannot even build (unknown tag, unknown element, malformed count) in front of, between and behind
            # the good ones: the good ones must still get their own values
            arr = next((tg for tg in proj.user_tags() if len(tg.dims) == 1 and isinstance(tg.typ, str) and tg.typ not in ("DWORD", "BOOL") and not tg.scope), None)
            refused = [f"{arr.name}[{arr.dims[0]}]", f"{arr.name}{{{arr.dims[0] + 1}}}"] if arr is not None else []  # well-formed, refused by the controller (beyond the end)
            for bad in ["no_such_tag", "no_such_tag[3]", alpha[0].split("{")[0] + "{x}"] + refused:
                mid = len(alpha) // 2
                lists += [(bad,) + tuple(alpha), tuple(alpha[:mid]) + (bad,) + tuple(alpha[mid:]), tuple(alpha) + (bad,), (bad, alpha[0], bad, alpha[-1])]
            # many requests with long paths and small values in one call: the packets are bounded by what is SENT, not by the replies
            small_long = sorted((x for x in valid if Q.request_bytes(proj, x) <= 8), key=lambda x: (-len(x), x))[:3]
            for x in small_long:
                for k in (conn // 12, conn // 7):
                    lists.append((x,) * k)
            for lst in lists:
                out = call(d.read, *lst)
                wants = [Q.read_expect(proj, x) for x in lst]
                probs = []
                if out[0] != "ok":
                    probs.append((0, "exception", f"read raised {out!r:.120}"))
                elif not isinstance(out[1], list) or len(out[1]) != len(lst):
                    probs.append((0, "shape", f"{len(lst)} requests, result {out[1]!r:.100}"))
                else:
                    for i, (g, wnt, text) in enumerate(zip(out[1], wants, lst)):
                        for clause, detail in judge(g, wnt, text):
                            probs.append((i, clause, detail))
                rep.case((cfg, image, lst if len(lst) < 4 else ("all", len(lst), lst[0])), outcome="ok" if not probs else probs[0][1], calls=1)
                for i, clause, detail in probs[:4]:
                    text = lst[i]
                    cls = next((c for x, c in reqs if x == text), "?")
                    lk = "pair" if len(lst) == 2 else "all-in-one"
                    rep.violation(f"read-list/{lk}/{packet_class(proj, text, conn)}/{cls}/{clause}", f"{cfg} image {image}: read of {len(lst)} requests, #{i} {text!r}: {detail}",
                                  {"cfg": list(cfg), "image": image, "requests": list(lst) if len(lst) < 6 else [text] , "choices": []})
    rep.sample({"config": cfg, "kind": kind, "requests": len(reqs), "example": reqs[len(reqs) // 2][0]})
    call(d.close)
    w.__exit__()
    return rep


def replay(r):
    cfg = r["cfg"]
    proj, ctl, t, w, d, o = open_world(cfg[0], cfg[1], cfg[2], 0, reduced=True)
    fill_image(proj, r["image"])
    ctl.ctx = Ctx(r.get("choices") or [])
    out = call(d.read, *r["requests"])
    ok = True
    res = out[1] if out[0] == "ok" else None
    lst = res if isinstance(res, list) else [res]
    print("config", cfg, "image", r["image"], "controller choices", r.get("choices"))
    if out[0] != "ok":
        print("read raised", out)
        ok = False
    for text, g in zip(r["requests"], lst):
        want = Q.read_expect(proj, text)
        probs = judge(g, want, text) if g is not None else []
        print(" request :", text, "\n library :", repr(g)[:200], "\n expected:", repr(want)[:200], "\n problems:", probs)
        ok = ok and not probs
    w.__exit__()
    return ok

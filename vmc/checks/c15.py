"""C15 — connection-path strings parse to the documented route (E3 over the grammar and all single edits)."""
import itertools

from vmc.core.report import Report
from vmc.ref import epath as E

META = {
    "rule": "strings generated from the documented grammar host[:port](sep port sep link)* : hosts x TCP ports x 0-4 hops; the "
    "full port x link alphabet product for 1-2 hops, a diagonal for 3-4 hops; every assignment of '/', '\\\\', ',' to the "
    "separator positions (3^k) for a route family of each hop count; auto_slot shortcuts through parse_connection_path and the "
    "three driver constructors. Invalid strings: every single deletion / duplication / replacement of a segment or separator "
    "of each valid family member, unknown aliases, links 256/-1/empty/partial quads, TCP ports 0/65535/65536/-1/non-numeric/empty. "
    "Dangling, doubled and leading separators with and without the slot shortcut. Histories: results of earlier parses mutated by the caller; every ordered pair of (string, entry point in {parse with/without slot shortcut, "
    "CIPDriver, LogixDriver, SLCDriver}) over 7 strings, the second call judged as if made alone. Oracle: reference grammar parser -> (host, port, route); route bytes == reference bytes and parse back (C09 parser). "
    "distinct = distinct string.",
    "explanation": "bounded-exhaustive enumeration of the path grammar and its single-edit neighbourhood",
    "assumptions": [
        "grammar from docs/getting_started.rst: separators / \\ , ; aliases backplane,bp=1; enet,dnet,cnet,dhrio-a,dh485-a=2; dhrio-b,dh485-b=3; numeric ports; links 0..255 or dotted quads",
        "upper-case aliases, non-ASCII digits, leading-zero numbers, IPv6 links, port number 0 are outside the grammar: neither required to work nor to fail",
        "valid TCP ports are 1..65534 (the library documents port <= 0 or >= 65535 as invalid)",
    ],
}
ALIASES = {"backplane": 1, "bp": 1, "enet": 2, "dhrio-a": 2, "dhrio-b": 3, "dnet": 2, "cnet": 2, "dh485-a": 2, "dh485-b": 3}
SEPS = ["/", "\\", ","]
HOSTS = ["192.168.1.100", "10.0.0.1", "1.2.3.4", "255.255.255.254", "plc-host", "plc1.example.com"]
TCP = [None, 1, 2, 44818, 65534]
PORTS = list(ALIASES) + ["1", "2", "3", "14", "15", "20"]
LINKS = ["0", "1", "9", "10", "99", "100", "255", "10.11.12.13", "1.2.3.4", "192.168.100.200"]


def ref_parse(host, tcp, segs, auto_slot):
    """Reference: -> (host, port, [(port_no, link_bytes)])."""
    if not segs:
        route = [(1, b"\x00")] if auto_slot else []
    elif len(segs) == 1 and auto_slot:
        route = [(1, link_bytes(segs[0]))]
    else:
        assert len(segs) % 2 == 0
        route = []
        for p, l in zip(segs[0::2], segs[1::2]):
            route.append((ALIASES[p] if p in ALIASES else int(p), link_bytes(l)))
    return host, tcp, route


def link_bytes(l):
    if l.isdigit():
        return bytes([int(l)])
    return l.encode()


def ref_route_bytes(route):
    body = E.build([("port", p, l) for p, l in route])
    return bytes([len(body) // 2]) + body


def mk(host, tcp, segs, seps):
    s = host + (f":{tcp}" if tcp is not None else "")
    for sep, seg in zip(seps, segs):
        s += sep + seg
    return s


def lib_eval(path, auto_slot):
    """-> ('ok', host, port, route bytes) | ('RequestError',) | ('DataError',) | ('foreign', name)"""
    from pycomm3.cip_driver import parse_connection_path
    from pycomm3.cip import PADDED_EPATH
    from pycomm3.exceptions import RequestError, DataError

    try:
        ip, port, route = parse_connection_path(path, auto_slot)
    except RequestError:
        return ("RequestError",)
    except Exception as e:  # noqa
        return ("foreign", "parse:" + type(e).__name__)
    try:
        b = PADDED_EPATH.encode(route, length=True)
    except DataError:
        return ("DataError",)
    except Exception as e:  # noqa
        return ("foreign", "encode:" + type(e).__name__)
    # a port segment is self-contained (its pad byte belongs to it): the same route gives the same bytes through every encoder
    from pycomm3.cip import EPATH, PACKED_EPATH, PortSegment

    for name, f in (("EPATH", lambda: EPATH.encode(route, length=True)), ("PACKED_EPATH", lambda: PACKED_EPATH.encode(route, length=True)),
                    ("PortSegment.encode", lambda: (lambda body: bytes([len(body) // 2]) + body)(b"".join(PortSegment.encode(s) for s in route)))):
        try:
            other = bytes(f())
        except Exception as e:  # noqa
            other = type(e).__name__.encode()
        if other != bytes(b):
            return ("encoders-differ", ip, port, bytes(b), name, other)
    return ("ok", ip, port, bytes(b))


def route_families():
    """hop count -> list of segment lists used for separator / edit exploration."""
    fam = {0: [[]]}
    fam[1] = [["bp", "0"], ["backplane", "3"], ["1", "0"], ["enet", "10.11.12.13"], ["2", "192.168.100.200"], ["dhrio-b", "255"]]
    fam[2] = [["bp", "1", "enet", "10.11.12.13"], ["backplane", "2", "cnet", "9"], ["1", "3", "2", "1.2.3.4"], ["dh485-a", "7", "bp", "0"]]
    fam[3] = [["backplane", "1", "enet", "10.11.12.13", "bp", "0"], ["bp", "2", "dnet", "63", "dhrio-a", "5"], ["1", "1", "2", "1.2.3.4", "1", "4"]]
    fam[4] = [["bp", "1", "enet", "10.11.12.13", "bp", "2", "enet", "192.168.100.200"], ["1", "0", "cnet", "99", "backplane", "15", "dh485-b", "255"]]
    return fam


def shards(tier, seed):
    return [("product1",), ("product2", 0), ("product2", 1), ("product2", 2), ("product2", 3), ("diag",), ("seps",), ("autoslot",), ("edits",), ("tcp",), ("drivers",), ("history",), ("pairs",), ("routestr",), ("msgroute",)] \
        + [(k, "python-O") for k in ("product1", "diag", "seps", "autoslot", "edits", "tcp", "drivers", "routestr", "msgroute")]  # validation must not rest on assert statements


def describe(tier, seed):
    return {"bounds": {"hosts": len(HOSTS), "tcp_ports": TCP, "ports": len(PORTS), "links": len(LINKS), "max_hops": 4}, "exhaustive": True}


def expect_valid(rep, path, host, tcp, segs, auto_slot, sigbase):
    want = ref_parse(host, tcp, segs, auto_slot)
    wb = ref_route_bytes(want[2])
    got = lib_eval(path, auto_slot)
    ok = got == ("ok", host, tcp, wb)
    if ok:
        # and the bytes parse back to the route
        back = E.parse_counted(wb)
        ok = back == [("port", p, l) for p, l in want[2]]
    rep.case(("valid", path, auto_slot), outcome="ok" if ok else "bad")
    if not ok:
        hops = len(want[2])
        rep.violation(f"{sigbase}/{hops}hop", f"parse_connection_path({path!r}, auto_slot={auto_slot}) -> {got!r:.160}; documented: host {host!r} port {tcp!r} route {want[2]!r} bytes {wb.hex()}",
                      {"kind": "valid", "path": path, "auto_slot": auto_slot, "host": host, "tcp": tcp, "segs": segs})
    return ok


def expect_invalid(rep, path, auto_slot, why):
    got = lib_eval(path, auto_slot)
    ok = got[0] in ("RequestError", "DataError")
    rep.case(("invalid", path, auto_slot), outcome=got[0])
    if not ok:
        rep.violation(f"invalid-accepted/{why}" if got[0] == "ok" else f"invalid-foreign-exception/{why}",
                      f"parse_connection_path({path!r}, auto_slot={auto_slot}) -> {got!r:.160}; the string is outside the grammar ({why}) and must be rejected with RequestError/DataError",
                      {"kind": "invalid", "path": path, "auto_slot": auto_slot, "why": why})
    return ok


def run_shard(shard, tier, seed):
    rep = Report()
    k = shard[0]
    fam = route_families()
    if k == "product1":
        for host in HOSTS:
            for tcp in TCP:
                for p in PORTS:
                    for l in LINKS:
                        for sep in SEPS:
                            expect_valid(rep, mk(host, tcp, [p, l], [sep, sep]), host, tcp, [p, l], False, "grammar")
        rep.sample({"example": mk(HOSTS[0], 44818, ["bp", "0"], ["/", "/"])})
    elif k == "product2":
        host = HOSTS[shard[1]]
        for p1 in PORTS:
            for l1 in LINKS:
                for p2 in PORTS:
                    for l2 in LINKS:
                        segs = [p1, l1, p2, l2]
                        expect_valid(rep, mk(host, None, segs, ["/"] * 4), host, None, segs, False, "grammar")
    elif k == "diag":
        for hops in (3, 4):
            n = 2 * hops
            for r in range(len(PORTS) * len(LINKS)):
                segs = []
                for h in range(hops):
                    segs += [PORTS[(r + 3 * h) % len(PORTS)], LINKS[(r // len(PORTS) + h) % len(LINKS)]]
                host = HOSTS[r % len(HOSTS)]
                tcp = TCP[r % len(TCP)]
                seps = [SEPS[(r + i) % 3] for i in range(n)]
                expect_valid(rep, mk(host, tcp, segs, seps), host, tcp, segs, False, "grammar")
    elif k == "seps":
        for hops, routes in fam.items():
            for segs in routes:
                for seps in itertools.product(SEPS, repeat=len(segs)):
                    for host, tcp in ((HOSTS[0], None), (HOSTS[4], 44818)):
                        expect_valid(rep, mk(host, tcp, segs, seps), host, tcp, segs, False, "separators")
        rep.sample({"example": mk(HOSTS[0], None, fam[2][0], ["\\", ",", "/", ","])})
    elif k == "autoslot":
        for host in HOSTS:
            for tcp in TCP:
                expect_valid(rep, mk(host, tcp, [], []), host, tcp, [], True, "auto-slot/bare")
                expect_valid(rep, mk(host, tcp, [], []), host, tcp, [], False, "bare-no-autoslot")
                for slot in range(0, 256):
                    for sep in SEPS:
                        if slot > 20 and sep != "/" and slot not in (99, 100, 254, 255):
                            continue
                        expect_valid(rep, mk(host, tcp, [str(slot)], [sep]), host, tcp, [str(slot)], True, "auto-slot/slot")
                # with auto_slot a full route still parses as a route
                for hops in (1, 2, 3):
                    for segs in fam[hops]:
                        expect_valid(rep, mk(host, tcp, segs, ["/"] * len(segs)), host, tcp, segs, True, "auto-slot/route")
                for bad in ("256", "-1", "x", "1.2.3", "300", "65535", "65536", "0x3", "3 ", " 3", "+3", "3.0"):
                    expect_invalid(rep, mk(host, tcp, [bad], ["/"]), True, "auto-slot-bad-slot")
                # dangling and doubled separators: an empty segment is not a slot, a port or a link
                for sep in SEPS:
                    for auto in (True, False):
                        expect_invalid(rep, mk(host, tcp, [], []) + sep, auto, "dangling-separator")
                        expect_invalid(rep, mk(host, tcp, [], []) + sep + sep, auto, "dangling-separator")
                        expect_invalid(rep, mk(host, tcp, ["3"], [sep]) + sep, auto, "dangling-separator")
                        expect_invalid(rep, mk(host, tcp, [], []) + sep + sep + "3", auto, "empty-segment")
                        for segs in fam[1][:3] + fam[2][:2]:
                            expect_invalid(rep, mk(host, tcp, segs, [sep] * len(segs)) + sep, auto, "dangling-separator")
                            expect_invalid(rep, mk(host, tcp, segs, [sep] + [sep + sep] * (len(segs) - 1)), auto, "empty-segment")
    elif k == "edits":
        for hops, routes in fam.items():
            for segs in routes:
                n = len(segs)
                seps = ["/"] * n
                host = HOSTS[0]
                base_parts = []  # token list: host, sep, seg, sep, seg ...
                for i in range(n):
                    # deletion of one segment (odd number of segments, or port/link swapped roles)
                    s2 = segs[:i] + segs[i + 1 :]
                    path = mk(host, None, s2, ["/"] * len(s2))
                    if len(s2) % 2 == 1:
                        expect_invalid(rep, path, False, "odd-segment-count")
                    # duplication of a separator -> empty segment
                    sp = list(seps)
                    path = host
                    for j, seg in enumerate(segs):
                        path += sp[j] + ("/" if j == i else "") + seg
                    expect_invalid(rep, path, False, "empty-segment")
                    # duplication of one segment -> odd count
                    s3 = segs[: i + 1] + segs[i:]
                    expect_invalid(rep, mk(host, None, s3, ["/"] * len(s3)), False, "odd-segment-count")
                    # replacement
                    if i % 2 == 0:
                        for bad in ("backplan", "bpp", "eth", "x", "-1", "bp ", " bp", "+1", " 1", "1 ", "1_8", "2\t", "1.0", "0x1", "1e0", "b p", "bp\n"):
                            s4 = list(segs)
                            s4[i] = bad
                            expect_invalid(rep, mk(host, None, s4, seps), False, "unknown-port")
                    else:
                        for bad in ("256", "-1", "1000", "x", "1.2.3", "1.2.3.4.5", "300.1.1.1", "a.b.c.d", "1..2.3", "+3", " 3", "3 ", "2_5", "3\t", "3.0", "0x3", "1e1",
                                    "10.11.12", "10.11.1213", "10.11.12.13 ", " 10.11.12.13", "10.11.12.0x13", "10.11.12.13.", ".10.11.12.13", "10.11.12.+13", "10.11.12.1_3"):
                            s4 = list(segs)
                            s4[i] = bad
                            expect_invalid(rep, mk(host, None, s4, seps), False, "link-out-of-range")
                # trailing separator
                if n:
                    expect_invalid(rep, mk(host, None, segs, seps) + "/", False, "empty-segment")
                expect_invalid(rep, mk(host, None, segs, seps) + "/", False, "empty-segment") if not n else None
        rep.sample({"example_invalid": HOSTS[0] + "/backplan/1"})
    elif k == "tcp":
        for host in HOSTS:
            for segs in ([], ["bp", "0"], ["bp", "1", "enet", "10.11.12.13"]):
                for bad in ("0", "65535", "65536", "-1", "abc", "", "1.5", "99999999", "-123"):
                    path = host + ":" + bad
                    for seg in segs:
                        path += "/" + seg
                    expect_invalid(rep, path, False, "tcp-port")
                    expect_invalid(rep, path, True, "tcp-port")
                for bad in ("1:2", ":44818", "44818:", "44:818", "1:2:3", ":"):
                    path = host + ":" + bad
                    for seg in segs:
                        path += "/" + seg
                    expect_invalid(rep, path, False, "extra-colon")
                for good in (1, 2, 80, 2222, 44818, 65534):
                    expect_valid(rep, mk(host, good, segs, ["/"] * len(segs)), host, good, segs, False, "tcp-port-valid")
    elif k == "history":
        # the route of a string must not depend on what earlier callers did with earlier results
        import pycomm3
        from pycomm3.cip_driver import parse_connection_path

        probes = [(h, t, segs, auto) for h in HOSTS[:2] for t in (None, 2222) for auto in (False, True)
                  for segs in ([], ["3"], ["bp", "0"], ["bp", "1", "enet", "10.11.12.13"]) if auto or len(segs) != 1]
        for mutate in ("pop", "clear", "append", "driver-pop"):
            for host, tcp, segs, auto in probes:
                path = mk(host, tcp, segs, ["/"] * len(segs))
                try:
                    if mutate == "driver-pop":
                        d = (pycomm3.LogixDriver if auto else pycomm3.CIPDriver)(path)
                        if d._cfg["cip_path"]:
                            d._cfg["cip_path"].pop(-1)  # what the Micro800 initialisation does
                    else:
                        r = parse_connection_path(path, auto)[2]
                        if mutate == "pop" and r:
                            r.pop()
                        elif mutate == "clear":
                            r.clear()
                        elif mutate == "append":
                            r.append(r[0] if r else None)
                except Exception:  # noqa
                    pass
                expect_valid(rep, path, host, tcp, segs, auto, f"history/{mutate}")
    elif k == "pairs":
        # E2, depth 2: every ordered pair of (string, entry point); the second call must behave as documented whatever came first
        import pycomm3
        from pycomm3.cip_driver import parse_connection_path

        strings = [("10.0.0.1", None, []), ("10.0.0.1", None, ["3"]), ("10.0.0.1", 2222, ["5"]), ("plc-1.local", None, ["bp", "0"]), ("10.0.0.1", None, ["bp", "1", "enet", "10.11.12.13"]),
                   ("10.0.0.1", None, ["bp"]), ("plc-1.local", 44818, ["12"])]
        entries = [("parse", False), ("parse", True), ("CIPDriver", False), ("LogixDriver", True), ("SLCDriver", True)]

        def first(path, entry):
            try:
                if entry[0] == "parse":
                    parse_connection_path(path, entry[1])
                else:
                    getattr(pycomm3, entry[0])(path)
            except Exception:  # noqa
                pass

        for (h1, t1, s1), e1 in itertools.product(strings, entries):
            p1 = mk(h1, t1, s1, ["/"] * len(s1))
            for (h2, t2, s2), auto2 in itertools.product(strings, (False, True)):
                for seps in (["/"] * len(s2), ["\\"] * len(s2)):
                    p2 = mk(h2, t2, s2, seps)
                    first(p1, e1)
                    valid = len(s2) % 2 == 0 or (auto2 and len(s2) == 1 and s2[0].isdigit())
                    if valid:
                        expect_valid(rep, p2, h2, t2, s2, auto2, f"pairs/after-{e1[0]}")
                    else:
                        expect_invalid(rep, p2, auto2, "odd-segments-after-" + e1[0])
    elif k == "routestr":
        # route strings handed to generic_message(route_path=<str>) use the same grammar (no host part)
        from pycomm3.cip_driver import parse_cip_route
        from pycomm3.cip import PADDED_EPATH
        from pycomm3.exceptions import RequestError, DataError

        for hops, routes in fam.items():
            if not hops:
                continue
            for segs in routes:
                for seps in itertools.product(SEPS, repeat=len(segs) - 1):
                    path = segs[0] + "".join(sp + sg for sp, sg in zip(seps, segs[1:]))
                    want = ref_route_bytes(ref_parse("h", None, segs, False)[2])
                    try:
                        got = ("ok", bytes(PADDED_EPATH.encode(parse_cip_route(path), length=True)))
                    except (RequestError, DataError) as e:
                        got = (type(e).__name__, str(e)[:60])
                    except Exception as e:  # noqa
                        got = ("foreign", type(e).__name__)
                    ok = got == ("ok", want)
                    rep.case(("routestr", path), outcome="ok" if ok else "bad")
                    if not ok:
                        used = "".join(sorted(set(seps)))
                        rep.violation("route-string/separator-" + ("comma" if "," in used else "slashes"),
                                      f"parse_cip_route({path!r}) -> {got!r:.120}; documented route bytes {want.hex()}", {"kind": "routestr", "path": path})
    elif k == "msgroute":
        # route strings handed to generic_message on every driver class: what the reference target sees in the Unconnected Send.
        # The bare-slot shortcut belongs to the connection path of the Logix/SLC drivers only, a message route is always pairs.
        import pycomm3
        from vmc.checks import c14
        from vmc.checks.harness import call, make_target
        from vmc.ref import net

        drivers = (("CIPDriver", lambda: pycomm3.CIPDriver("10.0.0.1/bp/2")), ("LogixDriver", lambda: pycomm3.LogixDriver("10.0.0.1/bp/2", init_tags=False)),
                   ("LogixDriver-bare", lambda: pycomm3.LogixDriver("10.0.0.1", init_tags=False)), ("SLCDriver", lambda: pycomm3.SLCDriver("10.0.0.1")), ("SLCDriver-slot", lambda: pycomm3.SLCDriver("10.0.0.1/3")))
        invalid = [("odd-segments", s) for s in ("3", "0", "17", "255", "bp", "enet", "10.11.12.13", "1/2/3", "bp/1/2", "bp,1,enet", "bp/1/enet/10.11.12.13/bp")]
        invalid += [("unknown-port", s) for s in ("foo/1", "bp/1/bar/2", "backplan/0")] + [("link-range", s) for s in ("bp/256", "1/1000", "bp/1/enet/999")]
        for name, mkd in drivers:
            dev = c14.LogDevice()
            t = make_target(dev)
            w = net.World(t, io_budget=10_000_000)
            w.__enter__()
            try:
                d = mkd()
                d.open()
                base = dict(service=0x0E, class_code=0x99, instance=1, attribute=1, connected=False, unconnected_send=True)
                for hops in (1, 2, 3):
                    for segs in fam[hops]:
                        for seps in itertools.product(SEPS, repeat=len(segs) - 1):
                            rs = segs[0] + "".join(sp + sg for sp, sg in zip(seps, segs[1:]))
                            want = ref_parse("h", None, segs, False)[2]
                            dev.reply = (0, [], b"ok")
                            t.cip_log.clear()
                            r = call(d.generic_message, route_path=rs, **base)
                            seen = [(e["transport"], None if e["route"] is None else [tuple(x) for x in e["route"]]) for e in t.cip_log]
                            ok = r[0] == "ok" and bool(r[1]) and seen == [("ucsend", [tuple(x) for x in want])]
                            rep.case(("msgroute", name, rs), outcome="ok" if ok else "bad")
                            if not ok:
                                rep.violation(f"message-route/{name}/valid/{hops}hop", f"{name}.generic_message(route_path={rs!r}): target saw {seen!r:.120}, result {r!r:.80}; documented route {want!r}", {"kind": "msgroute", "drv": name})
                for why, rs in invalid:
                    t.cip_log.clear()
                    r = call(d.generic_message, route_path=rs, **base)
                    seen = [(e["transport"], e["route"]) for e in t.cip_log]
                    ok = not seen and r[0] == "pycomm" and r[1] in ("RequestError", "DataError")
                    rep.case(("msgroute-invalid", name, rs), outcome=r[0] if not ok else "rejected")
                    if not ok:
                        rep.violation(f"message-route/{name}/invalid-{'accepted' if seen else 'not-refused'}/{why}", f"{name}.generic_message(route_path={rs!r}) -> {r!r:.100}, target saw {seen!r:.100}; the string is outside the grammar ({why})", {"kind": "msgroute", "drv": name})
            finally:
                w.__exit__()
        rep.sample({"drivers": [n for n, _ in drivers], "invalid_route_strings": len(invalid)})
    elif k == "drivers":
        import pycomm3
        from pycomm3.cip import PADDED_EPATH

        for cls, auto in ((pycomm3.CIPDriver, False), (pycomm3.LogixDriver, True), (pycomm3.SLCDriver, True)):
            for host in HOSTS[:3] + HOSTS[4:5]:
                for tcp in (None, 2222):
                    cases = [[]] + [[str(s)] for s in (0, 1, 7, 16)] * (1 if auto else 0) + fam[1] + fam[2][:2] + fam[3][:1]
                    for segs in cases:
                        path = mk(host, tcp, segs, ["/"] * len(segs))
                        want = ref_parse(host, tcp, segs, auto)
                        try:
                            d = cls(path)
                            got = (d._cfg["ip address"], d._cfg["port"], bytes(PADDED_EPATH.encode(d._cfg["cip_path"], length=True)))
                        except Exception as e:  # noqa
                            got = ("exc", type(e).__name__)
                        exp = (host, tcp or 44818, ref_route_bytes(want[2]))
                        ok = got == exp
                        rep.case(("driver", cls.__name__, path), outcome="ok" if ok else "bad")
                        if not ok:
                            rep.violation(f"driver-path/{cls.__name__}", f"{cls.__name__}({path!r}): address/port/route {got!r:.120}, documented {exp!r:.120}",
                                          {"kind": "driver", "cls": cls.__name__, "path": path})
    return rep


def replay(r):
    if r["kind"] == "valid":
        want = ref_parse(r["host"], r["tcp"], r["segs"], r["auto_slot"])
        got = lib_eval(r["path"], r["auto_slot"])
        print("path     :", r["path"], "auto_slot", r["auto_slot"])
        print("library  :", got)
        print("reference:", (r["host"], r["tcp"], ref_route_bytes(want[2]).hex()))
        return got == ("ok", r["host"], r["tcp"], ref_route_bytes(want[2]))
    if r["kind"] == "invalid":
        got = lib_eval(r["path"], r["auto_slot"])
        print("path     :", r["path"], "auto_slot", r["auto_slot"], "(invalid:", r["why"] + ")")
        print("library  :", got)
        return got[0] in ("RequestError", "DataError")
    rep = run_shard(("routestr",) if r["kind"] == "routestr" else ("msgroute",) if r["kind"] == "msgroute" else ("drivers",), "quick", 0)
    for s, vs in rep.violations.items():
        print("  violates:", s, "::", vs[0].msg[:300])
    return not rep.violations

"""C14 — generic messaging delivers the request verbatim and returns the answer (E3, logging strict target)."""
import itertools
import struct

from vmc.core.report import Report
from vmc.ref import enip, net, epath as E, wire as W
from .harness import call, make_target

META = {
    "rule": "generic_message over: service codes 0..127 as int and 1-byte bytes; class/instance/attribute boundary values as int "
    "and as 1/2/4-byte bytes (attribute also absent); request data of every length 0..64 and 499/500/3900; transports "
    "connected, UCMM (route_path=False) and Unconnected Send; route_path True / str / segment list / encoded bytes with 0-3 "
    "hops and driver routes of 0-3 hops; reply data of every length 0..64 raw or decoded with UINT/STRING/Struct; reply "
    "status ok / error with and without extended status. Helpers get_plc_name, get_plc_info, get_module_info(slot 0..16), "
    "get_plc_time, set_plc_time over 64-bit boundary values. Histories (E2): every sequence of 2 (thorough 3) operations out of 13 "
    "(4 generic_message transports, get_module_info 0/3/16, plc name/info, get/set time, close+open) on drivers with 0-, 1- and 3-hop routes; "
    "refusals 1..255 x extended-status forms x {no data type, DINT, STRING, Struct} x reply with/without trailing bytes; what the target is asked by the last operation, the Forward Opens/connection routes and the result must equal those of the same operation alone. Oracle: (transport, service, path, data, route) logged by the "
    "target == requested; returned value == reply bytes / reference decode; refused -> falsy Tag with the status text. "
    "distinct = distinct argument tuple.",
    "explanation": "bounded-exhaustive enumeration, one generic_message call per case on a connected driver",
    "assumptions": [
        "service codes with bit 7 set are replies and outside the domain; attribute id 0 given as int means 'no attribute'",
        "UCMM without Unconnected Send but with a route (route_path not False) is not constrained: the library appends the route to the data by design for Forward Open",
        "Unconnected Send with route_path=False (no route field at all) is a caller error and not constrained",
        "connected payloads above the connection size are C04's business; here only delivery is compared",
    ],
}
IDV = [0, 1, 0xFF, 0x100, 0xFFFF, 0x10000, 0xFFFFFFFF]


class LogDevice(enip.IdentityDevice):
    def __init__(self):
        super().__init__()
        self.reply = (0, [], b"")
        self.clock_us = 0

    def handle(self, req, info):
        if req.path[:1] == [("class", 0x99)] or req.path[:1] == [("class", 0x10099)] or self.force:
            st, ext, data = self.reply
            return W.build_mr_reply(req.service, st, ext, data)
        if req.path[:1] == [("class", 0x64)] and req.service == 0x01:
            name = b"MyProgram"
            return W.build_mr_reply(req.service, 0, [], struct.pack("<H", len(name)) + name)
        if req.path[:1] == [("class", 0x8B)]:
            if req.service == 0x03 and req.data == b"\x01\x00\x0b\x00":
                return W.build_mr_reply(req.service, 0, [], struct.pack("<HHHQ", 1, 11, 0, self.clock_us))
            if req.service == 0x04 and len(req.data) == 12 and req.data[:4] == b"\x01\x00\x06\x00":
                self.clock_us = struct.unpack_from("<Q", req.data, 4)[0]
                return W.build_mr_reply(req.service, 0, [], struct.pack("<HHH", 1, 6, 0))
            return W.build_mr_reply(req.service, 0x13 if len(req.data) < 12 else 0x15)
        return super().handle(req, info)

    force = False


def forms(v):
    out = [("int", v)]
    for w in (1, 2, 4):
        if v < 1 << (8 * w):
            out.append((f"b{w}", v.to_bytes(w, "little")))
    return out


def new_driver(path="10.0.0.1/bp/2", policy=None, cls=None):
    import pycomm3

    dev = LogDevice()
    t = make_target(dev, policy)
    w = net.World(t, io_budget=10_000_000)
    w.__enter__()
    d = (cls or pycomm3.CIPDriver)(path)
    d.open()
    return w, t, dev, d


def route_of(path_segments):
    return [(p, l) for (_, p, l) in path_segments]


def wire_segment(kind, given):
    """The logical segment a given id asks for: an int takes the narrowest format, bytes are the value field as given (their
    length is the 8/16/32-bit format the caller chose)."""
    from vmc.ref import epath as EP

    if isinstance(given, int):
        return EP.logical(kind, given)
    w = len(given)
    return bytes([0x20 | EP.LOGICAL_CODE[kind] << 2 | {1: 0, 2: 1, 4: 2}[w]]) + (b"\x00" if w > 1 else b"") + given


def expect(rep, t, dev, d, kw, want, reply=(0, [], b""), sig="delivery", dtype_ref=None, rp=None, raw_path=None):
    """Issue one generic_message and compare the target's log entry and the returned Tag."""
    from pycomm3.cip import SERVICE_STATUS

    dev.reply = reply
    t.cip_log.clear()
    n_ev = len(t.events)
    r = call(d.generic_message, **kw)
    log = [e for e in t.cip_log]
    transport, service, path, data, route = want
    problems = []
    if r[0] != "ok":
        problems.append(f"call ended with {r!r}")
    elif len(log) != 1:
        problems.append(f"target saw {len(log)} object requests")
    else:
        e = log[0]
        got = (e["transport"], e["service"], e["path"], e["data"], e["route"])
        if got != (transport, service, path, data, route):
            for name, a, b in zip(("transport", "service", "path", "data", "route"), got, want):
                if a != b:
                    problems.append(f"{name}: target saw {a!r:.80}, requested {b!r:.80}")
        if raw_path is not None and bytes(e["raw_path"]) != raw_path:
            problems.append(f"path bytes: target saw {bytes(e['raw_path']).hex(' ')}, the ids as given are {raw_path.hex(' ')}")
        tag = r[1]
        st, ext, rdata = reply
        if st == 0:
            exp_val = rdata if dtype_ref is None else dtype_ref
            if dtype_ref is not None and isinstance(dtype_ref, tuple) and dtype_ref and dtype_ref[0] == "undecodable":
                if tag or not tag.error:
                    problems.append(f"undecodable reply data gave {tag!r:.100}")
            elif not (tag.value == exp_val and tag.error is None and (bool(tag) or exp_val is None)):
                problems.append(f"returned {tag!r:.100}, reply data {exp_val!r:.60}")
        else:
            txt = SERVICE_STATUS.get(st)
            named = tag.error and ((txt and txt in tag.error and sum(1 for v_ in SERVICE_STATUS.values() if v_ == txt) == 1) or f"{st:02x}" in tag.error.lower())
            if tag or not tag.error or not named:
                problems.append(f"refused with status {st:#04x} but returned {tag!r:.120}")
    evs = [e for e in t.events[n_ev:] if e[0].startswith(("C14", "C09", "C11"))]
    for tag_, detail in evs:
        problems.append(f"target flagged {tag_}: {detail:.100}")
    rep.case(rp, outcome="ok" if not problems else "bad")
    if problems:
        rep.violation(sig, f"generic_message({ {k: (v if not isinstance(v, bytes) or len(v) < 20 else v[:20]) for k, v in kw.items()} !r:.200}): " + "; ".join(problems[:3]), {"case": rp})
    return not problems


def path_of(c, i, a):
    p = [("class", c), ("instance", i)]
    if a is not None:
        p.append(("attribute", a))
    return p


TRANSPORTS = ("connected", "ucmm", "ucsend")


def tkw(transport):
    if transport == "connected":
        return dict(connected=True)
    if transport == "ucmm":
        return dict(connected=False, unconnected_send=False, route_path=False)
    return dict(connected=False, unconnected_send=True, route_path=True)


HIST_PATHS = ("10.0.0.1/bp/2", "10.0.0.1/bp/1/enet/10.11.12.13/bp/0", "10.0.0.1")


def hist_ops(d):
    gm = d.generic_message
    base = dict(service=0x0E, class_code=0x99, instance=1, attribute=1, request_data=b"\x01")
    ops = {
        "gm-connected": lambda: gm(**base),
        "gm-ucmm": lambda: gm(**base, connected=False, unconnected_send=False, route_path=False),
        "gm-ucsend-true": lambda: gm(**base, connected=False, unconnected_send=True, route_path=True),
        "gm-ucsend-str": lambda: gm(**base, connected=False, unconnected_send=True, route_path="bp/5"),
        "module-info-0": lambda: d.get_module_info(0),
        "module-info-3": lambda: d.get_module_info(3),
        "module-info-16": lambda: d.get_module_info(16),
        "plc-name": d.get_plc_name,
        "plc-info": d.get_plc_info,
        "get-time": d.get_plc_time,
        "set-time": lambda: d.set_plc_time(1_600_000_000_123_456),
        "set-time-0": lambda: d.set_plc_time(0),
        "reopen": lambda: (d.close(), d.open()),
    }
    return ops


def hist_observe(hist, dpath):
    """Run the operations of `hist` in order on a fresh driver; observation of the LAST one: what the target was asked
    (transport, service, path, data, route), the routes of connections opened meanwhile, and the result."""
    import pycomm3

    dev = LogDevice()
    t = make_target(dev)
    with net.World(t, io_budget=10_000_000):
        d = pycomm3.LogixDriver(dpath, init_tags=False)
        o = call(d.open)
        ops = hist_ops(d)
        obs = None
        for name in hist:
            dev.clock_us = 42
            t.cip_log.clear()
            t.fo_log.clear()
            n_ev = len(t.events)
            r = call(ops[name])
            res = repr(r)[:300] if name != "reopen" else r[0]
            obs = ([(e["transport"], e["service"], tuple(map(tuple, e["path"])), bytes(e["data"]), None if e["route"] is None else tuple(e["route"])) for e in t.cip_log],
                   [tuple(x[:3]) for x in t.fo_log] + [("route", tuple(c.route)) for c in t.connections.values()], res, [e for e in t.events[n_ev:] if e[0].startswith(("C14", "C09", "C11"))], dev.clock_us)
        call(d.close)
    return o, obs


def run_history(rep, dpath, tier):
    names = list(hist_ops(type("D", (), {"generic_message": None, "get_module_info": None, "get_plc_name": None, "get_plc_info": None, "get_plc_time": None, "set_plc_time": None})()))
    depth = 2 if tier == "quick" else 3
    alone = {n: hist_observe((n,), dpath) for n in names}
    # what the driver's own route is, from the reference grammar: LogixDriver adds backplane slot 0 to a bare address
    segs = dpath.split("/")[1:]
    droute = tuple(({"bp": 1, "backplane": 1, "enet": 2, "cnet": 2}.get(p, p) if not str(p).isdigit() else int(p), (bytes([int(l)]) if l.isdigit() else l.encode())) for p, l in zip(segs[::2], segs[1::2])) or ((1, b"\x00"),)
    expected_route = {"gm-ucsend-true": droute, "gm-ucsend-str": ((1, b"\x05"),), "plc-info": droute,
                      "module-info-0": droute[:-1] + ((1, b"\x00"),), "module-info-3": droute[:-1] + ((1, b"\x03"),), "module-info-16": droute[:-1] + ((1, b"\x10"),)}
    for n, (o, obs) in alone.items():
        wrong = None
        if n in expected_route:
            routes = [r[4] for r in obs[0] if r[0] == "ucsend"]
            if routes != [expected_route[n]]:
                wrong = f"Unconnected Send route(s) {routes!r}, expected {expected_route[n]!r}"
        rep.case(("history", dpath, n), outcome="ok" if o == ("ok", True) and not obs[3] and not wrong else "bad")
        if o != ("ok", True) or obs[3] or wrong:
            rep.violation("history/alone", f"{n} on {dpath!r}: open {o!r:.60}, target flagged {obs[3]!r:.160}" + (f"; {wrong}" if wrong else ""), {"case": ("history", dpath, (n,))})
    for k in range(2, depth + 1):
        for hist in itertools.product(names, repeat=k):
            o, obs = hist_observe(hist, dpath)
            want = alone[hist[-1]][1]
            ok = obs == want
            rep.case(("history", dpath, hist), outcome="same" if ok else "differs")
            if not ok:
                what = next(lbl for lbl, a, b in zip(("requests seen by the target", "forward opens", "result", "target flags", "controller clock"), obs, want) if a != b)
                i = ("requests seen by the target", "forward opens", "result", "target flags", "controller clock").index(what)
                rep.violation(f"history/{hist[-1]}/{what.split()[0]}", f"driver {dpath!r}: {hist[-1]} after {list(hist[:-1])}: {what} {obs[i]!r:.200}; the same call on a fresh driver: {want[i]!r:.200}",
                              {"case": ("history", dpath, list(hist))})
    rep.sample({"history_ops": names, "depth": depth, "driver": dpath})


def shards(tier, seed):
    return [("services",), ("ids", 0), ("ids", 1), ("ids", 2), ("datalen",), ("replies",), ("routes",), ("helpers",), ("status",), ("longrun",)] + [("history", i) for i in range(len(HIST_PATHS))] \
        + [("helpers", "debuglog"), ("status", "debuglog"), ("history", 0, "debuglog"), ("routes", "debuglog")] \
        + [("services", "python-O"), ("status", "python-O"), ("routes", "python-O"), ("replies", "python-O")]


def describe(tier, seed):
    return {"bounds": {"services": "0..127 x {int, bytes}", "id_values": IDV, "data_lengths": "0..64, 499, 500, 3900", "hops": "0..3"}, "exhaustive": True}


def run_shard(shard, tier, seed):
    import pycomm3
    from pycomm3.cip import UINT, STRING, Struct, USINT, PortSegment, PADDED_EPATH

    rep = Report()
    k = shard[0]
    droute = [(1, b"\x02")]
    if k == "services":
        w, t, dev, d = new_driver()
        for svc in range(128):
            for form, sv in (("int", svc), ("bytes", bytes([svc]))):
                for tr in TRANSPORTS:
                    kw = dict(service=sv, class_code=0x99, instance=1, attribute=3, request_data=b"\x11\x22", **tkw(tr))
                    want = (tr, svc, path_of(0x99, 1, 3), b"\x11\x22", droute if tr == "ucsend" else None)
                    expect(rep, t, dev, d, kw, want, reply=(0, [], bytes([svc])), sig=f"delivery/service/{tr}", rp=("svc", svc, form, tr))
        # keyword combinations: the "unconnected only" options have no say when the message is connected (explicitly or by default)
        for svc in (0x01, 0x0E, 0x4C):
            for conn in ((), (("connected", True),)):
                for us in ((), (("unconnected_send", True),), (("unconnected_send", False),)):
                    for rp in ((), (("route_path", True),), (("route_path", False),), (("route_path", "bp/3"),), (("route_path", b"\x01\x00\x01\x03"),)):
                        opts = dict(conn + us + rp)
                        kw = dict(service=svc, class_code=0x99, instance=1, attribute=3, request_data=b"\x11\x22", **opts)
                        want = ("connected", svc, path_of(0x99, 1, 3), b"\x11\x22", None)
                        expect(rep, t, dev, d, kw, want, reply=(0, [], bytes([svc])), sig="delivery/keywords/connected-with-unconnected-options", rp=("kw", svc, tuple(sorted((k_, repr(v_)) for k_, v_ in opts.items()))))
        rep.sample({"service": "0..127", "transports": TRANSPORTS})
    elif k == "ids":
        w, t, dev, d = new_driver()
        dev.force = True
        tr = TRANSPORTS[shard[1]]
        for c, i in itertools.product(IDV, IDV):
            for (cf, cv), (if_, iv) in itertools.product(forms(c), forms(i)):
                for a in (None, 1, 0xFF, 0x100, 0xFFFF, 0x10000, b"\x00", b"\x07", b"\x07\x01"):
                    kw = dict(service=0x0E, class_code=cv, instance=iv, request_data=b"\xAB", **tkw(tr))
                    if a is not None:
                        kw["attribute"] = a
                    an = a if a is None or isinstance(a, int) else int.from_bytes(a, "little")
                    if (c, i) == (6, 1):
                        continue
                    want = (tr, 0x0E, path_of(c, i, an), b"\xAB", droute if tr == "ucsend" else None)
                    raw = wire_segment("class", cv) + wire_segment("instance", iv) + (wire_segment("attribute", a) if a is not None else b"")
                    expect(rep, t, dev, d, kw, want, reply=(0, [], b"ok"), sig=f"delivery/path/{tr}", rp=("ids", c, i, cf, if_, repr(a), tr), raw_path=raw)
        rep.sample({"class_instance_attribute": "boundary product", "transport": tr})
    elif k == "longrun":
        # a long-lived driver: 66 000 connected messages (the sequence counter comes round) and as many unconnected ones, every one delivered
        w, t, dev, d = new_driver()
        t.keep_cip = True
        for tr in ("connected", "ucsend"):
            kw = dict(service=0x0E, class_code=0x99, instance=1, attribute=1, **tkw(tr))
            dev.reply = (0, [], b"\x07\x00")
            bad = None
            for i in range(66000):
                t.cip_log.clear()
                r = call(d.generic_message, **kw)
                if not (r[0] == "ok" and bool(r[1]) and r[1].value == b"\x07\x00" and len(t.cip_log) == 1 and t.cip_log[0]["transport"] == tr):
                    bad = (i, r)
                    break
            rep.case(("longrun", tr), outcome="ok" if bad is None else "bad", calls=66000)
            if bad:
                rep.violation(f"delivery/long-run/{tr}", f"message #{bad[0] + 1} of a run of identical generic messages on one driver ({tr}): {bad[1]!r:.140}; target saw {len(t.cip_log)} request(s)", {"case": ("longrun", tr)})
        rep.sample({"long_run": 66000})
    elif k == "datalen":
        w, t, dev, d = new_driver()
        for n in list(range(0, 65)) + [499, 500, 3900]:
            data = bytes((n * 3 + j * 5) & 0xFF for j in range(n))
            for tr in TRANSPORTS:
                if tr != "connected" and n > 500:
                    continue
                for a in (None, 2):
                    kw = dict(service=0x4C, class_code=0x99, instance=0x1234, request_data=data, **tkw(tr))
                    if a:
                        kw["attribute"] = a
                    want = (tr, 0x4C, path_of(0x99, 0x1234, a), data, droute if tr == "ucsend" else None)
                    expect(rep, t, dev, d, kw, want, reply=(0, [], b"\x01"), sig=f"delivery/data/{tr}/{'odd' if n % 2 else 'even'}", rp=("len", n, tr, a))
        rep.sample({"data_lengths": "0..64,499,500,3900"})
    elif k == "replies":
        w, t, dev, d = new_driver()
        st3 = Struct(UINT("a"), USINT("b"), STRING("s"))
        for n in range(0, 65):
            rdata = bytes((n * 7 + j * 3 + 1) & 0xFF for j in range(n))
            for tr in TRANSPORTS:
                base = dict(service=0x0E, class_code=0x99, instance=1, attribute=1, **tkw(tr))
                want = (tr, 0x0E, path_of(0x99, 1, 1), b"", droute if tr == "ucsend" else None)
                expect(rep, t, dev, d, dict(base), want, reply=(0, [], rdata), sig=f"reply/raw/{tr}", rp=("raw", n, tr))
                # decoded replies
                if n >= 2:
                    ref = int.from_bytes(rdata[:2], "little")
                    expect(rep, t, dev, d, dict(base, data_type=UINT), want, reply=(0, [], rdata), sig=f"reply/decoded/{tr}", dtype_ref=ref, rp=("uint", n, tr))
                s = "".join(chr(0x41 + (j % 26)) for j in range(n))
                sdata = struct.pack("<H", n) + s.encode()
                expect(rep, t, dev, d, dict(base, data_type=STRING), want, reply=(0, [], sdata), sig=f"reply/decoded/{tr}", dtype_ref=s, rp=("string", n, tr))
                sd = struct.pack("<HB", n * 257 & 0xFFFF, n) + sdata
                expect(rep, t, dev, d, dict(base, data_type=st3), want, reply=(0, [], sd), sig=f"reply/decoded/{tr}", dtype_ref={"a": n * 257 & 0xFFFF, "b": n, "s": s}, rp=("struct", n, tr))
            # a reply too short for the requested type must not come back truthy
            expect(rep, t, dev, d, dict(service=0x0E, class_code=0x99, instance=1, data_type=UINT), ("connected", 0x0E, path_of(0x99, 1, None), b"", None),
                   reply=(0, [], b"\x01") if n % 2 else (0, [], b""), sig="reply/undecodable", dtype_ref=("undecodable",), rp=("short", n))
        rep.sample({"reply_lengths": "0..64", "data_types": ["None", "UINT", "STRING", "Struct"]})
    elif k == "status":
        from pycomm3.cip import EXTEND_CODES
        w, t, dev, d = new_driver()
        # services the library knows and object-specific ones it does not; none of them is a multi-packet service, so status 6 is a refusal too
        for svc in (0x0E, 0x01, 0x10, 0x4B, 0x32, 0x5F, 0x7E, 0x4C):
            for st in range(1, 256):
                for ext in ([], [0x2105], [0x0204], [1, 2]) if svc == 0x0E else ([],):
                    for tr in TRANSPORTS:
                        kw = dict(service=svc, class_code=0x99, instance=1, attribute=1, **tkw(tr))
                        want = (tr, svc, path_of(0x99, 1, 1), b"", droute if tr == "ucsend" else None)
                        expect(rep, t, dev, d, kw, want, reply=(st, ext, b"\xde\xad"), sig=f"refused/{tr}" + ("/status6" if st == 6 else ""), rp=("status", svc, st, tuple(ext), tr))
        # the same refusals when the caller supplied a data type for the (absent) answer: the status text must survive
        from pycomm3.cip import DINT
        for dt, dname in ((DINT, "DINT"), (STRING, "STRING"), (Struct(UINT("a"), USINT("b")), "Struct")):
            for st in range(1, 256):
                for ext in ([], [0x2105], [0x0000], [1, 2]):
                    for data in (b"", b"\xde\xad\xbe\xef\x01"):
                        for tr in TRANSPORTS:
                            kw = dict(service=0x0E, class_code=0x99, instance=1, attribute=1, data_type=dt, **tkw(tr))
                            want = (tr, 0x0E, path_of(0x99, 1, 1), b"", droute if tr == "ucsend" else None)
                            expect(rep, t, dev, d, kw, want, reply=(st, ext, data), sig=f"refused-typed/{tr}" + ("/status6" if st == 6 else ""), rp=("status", dname, st, tuple(ext), len(data), tr))
        rep.sample({"statuses": "1..255", "extended": "0/1/2 words", "services": "0x0E 0x01 0x10 0x4B 0x32 0x5F 0x7E 0x4C"})
    elif k == "history":
        run_history(rep, HIST_PATHS[shard[1]], tier)
        return rep
    elif k == "routes":
        hops = [("bp", 3, (1, b"\x03")), ("enet", "10.11.12.13", (2, b"10.11.12.13")), (1, 0, (1, b"\x00")), ("cnet", 9, (2, b"\x09")), (2, "192.168.100.200", (2, b"192.168.100.200")),
                # port numbers around the 4-bit field: 14 fits, 15 is the escape value and needs the extended form, as do 16 and 300
                (14, 2, (14, b"\x02")), (15, 3, (15, b"\x03")), (16, "10.1.1.1", (16, b"10.1.1.1")), (300, 255, (300, b"\xff")), ("dh485-b", 5, (3, b"\x05")), ("dhrio-a", 1, (2, b"\x01"))]
        for nd in range(0, 4):
            dsegs = hops[:nd]
            dpath = "10.0.0.1" + "".join(f"/{p}/{l}" for p, l, _ in dsegs)
            w, t, dev, d = new_driver(dpath)
            dr = [r for _, _, r in dsegs]
            for odd in (b"\x01", b"\x01\x02"):
                base = dict(service=0x0E, class_code=0x99, instance=1, request_data=odd, connected=False, unconnected_send=True)
                mk = lambda route: ("ucsend", 0x0E, path_of(0x99, 1, None), odd, route)
                expect(rep, t, dev, d, dict(base, route_path=True), mk(dr), sig="route/driver-route", rp=("route-true", nd, len(odd)))
                for nr in range(1, 4):
                    for rot in range(len(hops)):
                        rs = [hops[(rot + j) % len(hops)] for j in range(nr)]
                        rr = [r for _, _, r in rs]
                        s_slash = "/".join(f"{p}/{l}" for p, l, _ in rs)
                        expect(rep, t, dev, d, dict(base, route_path=s_slash), mk(rr), sig="route/string", rp=("route-str", nd, nr, rot, len(odd)))
                        expect(rep, t, dev, d, dict(base, route_path=s_slash.replace("/", "\\")), mk(rr), sig="route/string", rp=("route-str-bs", nd, nr, rot, len(odd)))
                        segs = [PortSegment(p, l) for p, l, _ in rs]
                        expect(rep, t, dev, d, dict(base, route_path=segs), mk(rr), sig="route/segments", rp=("route-seg", nd, nr, rot, len(odd)))
                        # any sequence of segments, not only a list
                        expect(rep, t, dev, d, dict(base, route_path=tuple(segs)), mk(rr), sig="route/segments-tuple", rp=("route-seg-tuple", nd, nr, rot, len(odd)))
                        enc = PADDED_EPATH.encode(segs, length=True, pad_length=True)
                        expect(rep, t, dev, d, dict(base, route_path=enc), mk(rr), sig="route/bytes", rp=("route-bytes", nd, nr, rot, len(odd)))
            # connected messages go over the connection opened along the driver route
            expect(rep, t, dev, d, dict(service=0x0E, class_code=0x99, instance=1), ("connected", 0x0E, path_of(0x99, 1, None), b"", None), sig="route/connected", rp=("route-conn", nd))
            conn_routes = [c.route for c in t.connections.values()]
            rep.case(("fo-route", nd), outcome="ok" if conn_routes == [dr] else "bad")
            if conn_routes != [dr]:
                rep.violation("route/forward-open", f"driver path {dpath!r}: Forward Open connection path routes {conn_routes!r}, expected {dr!r}", {"case": ("fo-route", nd)})
            w.__exit__()
        rep.sample({"driver_hops": "0..3", "route_hops": "1..3", "forms": ["True", "str", "segments", "bytes"]})
    elif k == "helpers":
        from datetime import datetime, timedelta
        # get_module_info(slot): Identity of the module in `slot` through Unconnected Send along route[:-1] + bp/slot
        for dpath, pre in (("10.0.0.1/bp/2", []), ("10.0.0.1/bp/1/enet/10.11.12.13/bp/0", [(1, b"\x01"), (2, b"10.11.12.13")])):
            w, t, dev, d = new_driver(dpath)
            for slot in range(0, 17):
                t.cip_log.clear()
                r = call(d.get_module_info, slot)
                e = t.cip_log[-1] if t.cip_log else None
                ok = r[0] == "ok" and e and (e["transport"], e["service"], e["path"], e["route"]) == ("ucsend", 1, path_of(1, 1, None), pre + [(1, bytes([slot]))]) \
                    and r[1].get("product_name") == t.identity["product_name"] and r[1].get("serial") == f"{t.identity['serial']:08x}"
                rep.case(("module_info", dpath, slot), outcome="ok" if ok else "bad")
                if not ok:
                    rep.violation("helper/get_module_info", f"get_module_info({slot}) on {dpath!r}: {r!r:.100}; target saw {e!r:.160}", {"case": ("module_info", dpath, slot)})
            w.__exit__()
        for cls_, micro in ((pycomm3.LogixDriver, False),):
            dev = LogDevice()
            t = make_target(dev)
            with net.World(t, io_budget=10_000_000) as w:
                d = pycomm3.LogixDriver("10.0.0.1", init_tags=False)
                o = call(d.open)
                name = call(d.get_plc_name)
                info = call(d.get_plc_info)
                ok = o == ("ok", True) and name == ("ok", "MyProgram") and info[0] == "ok" and info[1].get("product_name") == t.identity["product_name"] \
                    and info[1].get("revision") == {"major": t.identity["major"], "minor": t.identity["minor"]} and d.info.get("name") == "MyProgram"
                rep.case(("plc_name_info",), outcome="ok" if ok else "bad")
                if not ok:
                    rep.violation("helper/get_plc_name-info", f"open {o!r:.60} name {name!r:.60} info {info!r:.120}", {"case": ("plc_name_info",)})
                far = [(1 << 33) * 1_000_000 + k for k in (-1, 0, 1, 3, 7, 999_999)] + [(1 << 34) * 1_000_000 + 1, 10_000_000_000_000_001, 100_000_000_000_000_003, 253402300799_999_999, 253402300799_999_998, 200_000_000_000_000_001]
                near = [1_600_000_000_000_000 + k for k in (1, 3, 5, 7, 9, 499_999, 500_001, 999_999)]
                vals = sorted({0, 1, 999_999, 1_000_000, 1_600_000_000_123_456, (1 << 32) - 1, 1 << 32, (1 << 53) + 1, 253402300799_000_000, 86_400_000_000 * 365 * 50 + 17, *far, *near})
                for us in vals + [None]:
                    t.cip_log.clear()
                    s = call(d.set_plc_time, us)
                    g = call(d.get_plc_time)
                    want_us = us if us is not None else int(w.clock * 1_000_000)
                    e = [x for x in t.cip_log if x["service"] == 0x04]
                    ok = s[0] == "ok" and bool(s[1]) and g[0] == "ok" and bool(g[1]) and g[1].value["microseconds"] == want_us \
                        and g[1].value["datetime"] == datetime(1970, 1, 1) + timedelta(microseconds=want_us) and dev.clock_us == want_us \
                        and len(e) == 1 and e[0]["path"] == path_of(0x8B, 1, None) and e[0]["data"] == struct.pack("<HHQ", 1, 6, want_us)
                    rep.case(("plc_time", us), outcome="ok" if ok else "bad")
                    if not ok:
                        rep.violation("helper/plc-time", f"set_plc_time({us!r}) -> {s!r:.100}; get_plc_time -> {g!r:.160}; controller clock {dev.clock_us}", {"case": ("plc_time", us)})
                for bad in (-1, 1 << 64):
                    s = call(d.set_plc_time, bad)
                    ok = s[0] == "pycomm" or (s[0] == "ok" and not s[1])
                    rep.case(("plc_time_bad", bad), outcome=s[0])
                    if not ok:
                        rep.violation("helper/plc-time-out-of-range", f"set_plc_time({bad}) -> {s!r:.120}", {"case": ("plc_time_bad", bad)})
        # the route used for route_path=True is the driver's *current* route: a Micro800 drops its backplane segment while opening
        from vmc.ref import logix as LX, projgen

        for pers, want_route in (("m800", []), ("v32", [(1, b"\x00")]), ("v20", [(1, b"\x00")])):
            proj = projgen.build("P1", 0, reduced=True)
            ctl = LX.LogixController(proj, pers)
            t = make_target(ctl)
            with net.World(t, io_budget=10_000_000) as w:
                d = pycomm3.LogixDriver("10.0.0.1")
                t.cip_log.clear()
                o = call(d.open)
                # the Identity request sent while opening: a Micro800 has no backplane to route through, it is asked directly (UCMM); a
                # chassis controller through an Unconnected Send along the driver's route
                idreq = [x for x in t.cip_log if x["service"] == 1 and x["path"][:1] == [("class", 1)]]
                want_tr = "ucmm" if pers == "m800" else "ucsend"
                ok_tr = bool(idreq) and all(x["transport"] == want_tr and (x["route"] or []) == (want_route if want_tr == "ucsend" else []) for x in idreq)
                rep.case(("open-identity", pers), outcome="ok" if ok_tr else "bad")
                if not ok_tr:
                    rep.violation("helper/plc-info-during-open", f"LogixDriver.open() on a {pers} controller: Identity request(s) went out as {[(x['transport'], x['route']) for x in idreq]!r}, expected {want_tr}",
                                  {"case": ("current-route", pers, 0)})
                for rnd in range(2):
                    t.cip_log.clear()
                    r = call(d.generic_message, service=1, class_code=1, instance=1, connected=False, unconnected_send=True, route_path=True)
                    e = [x for x in t.cip_log if x["transport"] == "ucsend"]
                    fo_routes = [c.route for c in t.connections.values()]
                    ok = o == ("ok", True) and r[0] == "ok" and len(e) == 1 and e[0]["route"] == want_route and all(fr == want_route for fr in fo_routes)
                    rep.case(("current-route", pers, rnd), outcome="ok" if ok else "bad")
                    if not ok:
                        rep.violation("route/driver-route-after-open", f"LogixDriver on a {pers} controller: Unconnected Send with route_path=True carried route {[x['route'] for x in e]!r}, Forward Open routes {fo_routes!r}; the driver's route is {want_route!r} ({r!r:.80})",
                                      {"case": ("current-route", pers, rnd)})
                    if d.tags:
                        call(d.read, next(iter(d.tags)))
        rep.sample({"helpers": ["get_module_info 0..16", "get_plc_name", "get_plc_info", "get/set_plc_time", "current route after open (Micro800)"]})
    if k not in ("routes", "helpers"):
        w.__exit__()
    return rep


def replay(r):
    case = r["case"]
    kind = case[0]
    shard = {"svc": ("services",), "kw": ("services",), "longrun": ("longrun",), "ids": None, "len": ("datalen",), "raw": ("replies",), "uint": ("replies",), "string": ("replies",), "struct": ("replies",),
             "short": ("replies",), "status": ("status",)}.get(kind)
    if kind == "ids":
        shard = ("ids", TRANSPORTS.index(case[-1]))
    elif kind == "history":
        shard = ("history", HIST_PATHS.index(case[1]))
    elif kind.startswith("route") or kind == "fo-route":
        shard = ("routes",)
    elif shard is None:
        shard = ("helpers",)
    rep = run_shard(shard, "quick", 0)
    hit = False
    for sig, vs in rep.violations.items():
        for v in vs:
            print("  violates:", sig, "::", v.msg[:300])
            hit = True
    return not hit

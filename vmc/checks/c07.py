"""C07 — encodings are the CIP wire format (E3, differential against the reference codec)."""
import json
import os
from io import BytesIO

from vmc.core.report import Report
from vmc.ref import codec as R
from . import typespace as TS

META = {
    "rule": "for every (type, value) of the C06 space: library bytes vs reference bytes and library decode of the reference "
    "bytes vs the value; for every fixed-width type every byte pattern of length 1 and 2 and the bit-pattern classes of "
    "length 4/8 decoded by both codecs; generated StructTag layouts and FixedSizeString capacities; the golden type-code "
    "table. Non-trivial = in-domain value or decodable pattern; distinct = distinct (type, value/pattern).",
    "explanation": "bounded-exhaustive differential enumeration against an independent codec",
    "assumptions": [
        "vmc/ref/codec.py is the specification (int.to_bytes, explicit IEEE-754 assembly, CIP Vol 1 App. C string layouts)",
        "all NaN patterns decode to 'a NaN' (payload propagation is hardware specific and not compared)",
        "pad and hidden bytes of a structure image are not compared on encode (care mask)",
        "golden/cip_types.json holds the type codes and widths of CIP Vol 1 App. C",
    ],
}
GOLDEN = os.path.join(os.path.dirname(os.path.dirname(os.path.dirname(os.path.abspath(__file__)))), "golden", "cip_types.json")


def shards(tier, seed):
    n = len(TS.type_space(tier))
    return [("type", i) for i in range(n)] + [("golden",), ("structtag",), ("fixstr",)] + [("patterns", i) for i in range(8)] \
        + [("type", i, "python-O") for i in range(n)] + [("structtag", "python-O"), ("fixstr", "python-O")] + [("type", i, "debuglog") for i in range(0, n, 7)]


def describe(tier, seed):
    return {"bounds": {"types": len(TS.type_space(tier)), "patterns": "all 1- and 2-byte strings; bit-pattern classes for 4/8"}, "exhaustive": True}


def _try(f, *a):
    """Call f; a bytes argument to a decoder is wrapped in a stream with a read budget."""
    from vmc.core.explore import BudgetExceeded

    if getattr(f, "__name__", "") == "decode":
        a = tuple(TS.CountingIO(x) if isinstance(x, (bytes, bytearray)) else x for x in a)
    try:
        return ("ok", f(*a))
    except BudgetExceeded:
        return ("exc", "NonTerminating", "read budget exceeded")
    except Exception as e:  # noqa
        return ("exc", type(e).__name__, str(e)[:80])


def enc_differs(node, v):
    try:
        exp = R.enc(node.desc, v)
    except R.RefError:
        return False
    r = _try(node.encode, v)
    return r[0] != "ok" or bytes(r[1]) != exp


def dec_differs(node, v):
    try:
        exp = R.enc(node.desc, v)
        val = node.expected_roundtrip(v)
    except R.RefError:
        return False
    d = _try(node.decode, exp)
    return d[0] != "ok" or not node.same(d[1], val)


def check_type(rep, node, tier, idx):
    sampled = False
    for vi, v in enumerate(node.values(tier)):
        try:
            exp = R.enc(node.desc, v)
            val = node.expected_roundtrip(v)
        except R.RefError:
            rep.case((node.label, repr(v)), nontrivial=False, outcome="out-of-domain", calls=0)
            continue
        outcome = "ok"
        r = _try(node.encode, v)
        if r[0] != "ok" or bytes(r[1]) != exp:
            b = TS.blame(node, v, enc_differs)
            got = bytes(r[1])[:40].hex() if r[0] == "ok" else r
            rep.violation(f"encode-bytes/{b.cls}", f"{node.label}.encode({v!r:.100}) = {got!r:.100}, reference {exp[:40].hex()}",
                          {"kind": "type", "type_index": idx, "tier": tier, "value_index": vi})
            outcome = "encode-differs"
        d = _try(node.decode, exp)
        if d[0] != "ok" or not node.same(d[1], val):
            b = TS.blame(node, v, dec_differs)
            rep.violation(f"decode-value/{b.cls}", f"{node.label}.decode({exp[:40].hex()}) = {d!r:.120}, reference {val!r:.100}",
                          {"kind": "type", "type_index": idx, "tier": tier, "value_index": vi})
            outcome = "decode-differs"
        if not sampled and outcome == "ok":
            rep.sample({"type": node.label, "value": repr(v)[:60], "wire": exp[:24].hex()})
            sampled = True
        rep.case((node.label, repr(v)), outcome=(outcome + ":" + node.cls) if outcome == "ok" else outcome, calls=2)


def pattern_set(width, tier):
    if width == 1:
        return [bytes([a]) for a in range(256)]
    if width == 2:
        return [bytes([a, b]) for a in range(256) for b in range(256)]
    pats = []
    for p in TS.real_patterns(width, tier):
        pats.append(p.to_bytes(width, "little"))
    for v in TS.int_values(width, False, tier):
        pats.append(v.to_bytes(width, "little"))
    return pats


def check_patterns(rep, part, tier):
    """Every byte pattern decoded by every fixed-width leaf type."""
    L = TS.leaves()
    names = [n for n in L if L[n]().desc[0] in ("int", "bool", "real", "bits") ]
    for i, name in enumerate(names):
        if i % 8 != part:
            continue
        node = L[name]()
        width = R.size_of(node.desc)
        for pat in pattern_set(width, tier):
            exp, _ = R.dec(node.desc, pat, 0)
            st = TS.CountingIO(pat + b"\x5a")
            d = _try(node.decode, st)
            ok = d[0] == "ok" and node.same(d[1], exp) and st.tell() == width
            rep.case((name, pat), outcome="ok" if ok else "differs")
            if not ok:
                rep.violation(f"decode-pattern/{node.cls}", f"{name}.decode({pat.hex()}) = {d!r:.100} (stream at {st.tell()}), reference {exp!r:.100}",
                              {"kind": "pattern", "type": name, "pattern": pat})
        rep.sample({"type": name, "patterns": len(pattern_set(width, tier))})


def check_golden(rep):
    from pycomm3.cip import DataTypes

    g = json.load(open(GOLDEN))["types"]
    L = TS.leaves()
    sp = {n.label: n for n in TS.special_nodes()}
    for code_s, info in sorted(g.items()):
        code = int(code_s, 16)
        r = _try(lambda: DataTypes[code])
        t = _try(DataTypes.get_type, code)
        want = info["name"]
        names_ok = r[0] == "ok" and isinstance(r[1], str) and (r[1].upper() == want or (want == "EPATH" and "EPATH" in r[1].upper()))
        type_ok = t[0] == "ok" and getattr(t[1], "code", None) == code
        rep.case(("golden", code), outcome="ok" if names_ok and type_ok else "bad", calls=2)
        if not (names_ok and type_ok):
            rep.violation("type-code-table/name-or-code", f"type code {code:#04x}: DataTypes[code] -> {r!r}, get_type -> {t!r}; CIP names it {want}",
                          {"kind": "golden", "code": code})
            continue
        width = info["width"]
        if width is None:
            continue
        node = L[want]() if want in L else sp.get(want)
        if node is None:
            continue
        # the type registered under the code must have the documented width on the wire
        v = node.values("quick")[1]
        reg = t[1]
        try:
            e = reg.encode(*v) if want == "DATE_AND_TIME" else reg.encode(v)
            st = TS.CountingIO(bytes(e) + b"\x00" * 8)
            reg.decode(st)
            ok = len(e) == width and st.tell() == width
        except Exception as ex:  # noqa
            e, ok = repr(ex), False
        rep.case(("golden-width", code), outcome="ok" if ok else "bad", calls=2)
        if not ok:
            rep.violation("type-code-table/width", f"type code {code:#04x} ({want}): encodes {v!r} to {e!r}; documented width {width}",
                          {"kind": "golden", "code": code})
    rep.sample({"golden_codes": len(g)})


from .typespace import structtag_layouts  # noqa: E402


def _masked(b, mask):
    return bytes(x & m for x, m in zip(b, mask))


def check_structtag(rep):
    for li, (label, mk) in enumerate(structtag_layouts()):
        lib, desc, vals = mk()
        mask = R.care_mask(desc)
        for vi, v in enumerate(vals):
            exp = R.enc(desc, v)
            r = _try(lib.encode, v)
            ok_e = r[0] == "ok" and len(r[1]) == len(exp) and _masked(bytes(r[1]), mask) == _masked(exp, mask)
            # decode an image whose pad / hidden bytes hold 0xA5 so that a wrong offset shows
            img = bytes((e & m) | (0xA5 & ~m & 0xFF) for e, m in zip(exp, mask))
            want, _ = R.dec(desc, img, 0)
            st = TS.CountingIO(img + b"\x77")
            d = _try(lib.decode, st)
            ok_d = d[0] == "ok" and TS.same_value(d[1], want) and st.tell() == len(img)
            rep.case(("structtag", label, vi), outcome="ok" if ok_e and ok_d else "differs", calls=2)
            if not ok_e:
                rep.violation("structtag/encode-layout", f"StructTag[{label}].encode({v!r:.100}) = {bytes(r[1]).hex() if r[0]=='ok' else r!r:.100}, reference {exp.hex()} (mask {mask.hex()})",
                              {"kind": "structtag", "layout": li, "value_index": vi})
            if not ok_d:
                rep.violation("structtag/decode-layout", f"StructTag[{label}].decode({img.hex()}) = {d!r:.160}, reference {want!r:.160}",
                              {"kind": "structtag", "layout": li, "value_index": vi})
        rep.sample({"layout": label, "size": desc[1], "values": len(vals)})


def check_fixstr(rep, tier):
    import pycomm3.cip as C
    from pycomm3.custom_types import FixedSizeString

    caps = [1, 2, 12, 20, 82, 480] if tier != "thorough" else list(range(1, 100)) + [480, 1000]
    for cap in caps:
        for lt, lb in ((C.UDINT, 4), (C.UINT, 2), (C.USINT, 1)):
            F = FixedSizeString(cap, lt)
            desc = ("fixstr", cap, lb)
            for n in sorted({0, 1, cap // 2, cap - 1, cap}):
                if n < 0 or n >= (1 << (8 * lb)):
                    continue
                s = "".join(chr((n * 5 + i * 3) % 256) for i in range(n))
                exp = R.enc(desc, s)
                r = _try(F.encode, s)
                ok_e = r[0] == "ok" and bytes(r[1]) == exp
                # controller images keep old characters after LEN: they must be ignored
                img = exp[: lb + n] + b"\xA5" * (cap - n)
                st = TS.CountingIO(img + b"\x77")
                d = _try(F.decode, st)
                ok_d = d[0] == "ok" and d[1] == s and st.tell() == len(img)
                rep.case(("fixstr", cap, lb, n), outcome="ok" if ok_e and ok_d else "differs", calls=2)
                if not ok_e:
                    rep.violation("fixstr/encode-layout", f"FixedSizeString({cap},{lb}-byte LEN).encode(len {n}) = {r!r:.100}, reference {exp[:40].hex()}",
                                  {"kind": "fixstr", "cap": cap, "lb": lb, "n": n})
                if not ok_d:
                    rep.violation("fixstr/decode-layout", f"FixedSizeString({cap},{lb}-byte LEN).decode(len {n}, stale tail) = {d!r:.100}",
                                  {"kind": "fixstr", "cap": cap, "lb": lb, "n": n})
            # values longer than the capacity are cut to it: LEN, characters and padding are those of the cut value (also with a capacity below the data area)
            for ml in (None, max(cap - 2, 0)):
                Fm = F if ml is None else FixedSizeString(cap, lt, ml)
                capn = cap if ml is None else ml
                for extra in (1, 2, capn + 5):
                    s = "".join(chr(65 + (i * 7) % 26) for i in range(capn + extra))
                    if capn >= (1 << (8 * lb)):
                        continue
                    exp = R.enc(desc, s[:capn])
                    r = _try(Fm.encode, s)
                    okl = r[0] == "ok" and bytes(r[1]) == exp
                    rep.case(("fixstr-overlong", cap, lb, ml, extra), outcome="ok" if okl else "differs")
                    if not okl:
                        rep.violation("fixstr/encode-overlong", f"FixedSizeString({cap},{lb}-byte LEN, max_len={ml}).encode({capn + extra} characters) = {str(r)[:80]}, reference (value cut to {capn}) {exp[:24].hex()}…",
                                      {"kind": "fixstr", "cap": cap, "lb": lb, "n": 0})
            # LEN fields a controller should never hold but a byte pattern can: larger than the capacity, top bit set, all ones.
            # The reference takes min(LEN, capacity) characters (LEN is unsigned); also through the default-argument form the driver uses.
            top = 1 << (8 * lb)
            data = bytes((i * 7 + 65) % 256 for i in range(cap))
            forms = [(F, f"{lb}-byte LEN")] + ([(FixedSizeString(cap), "default LEN type")] if lb == 4 else [])
            for ln in sorted(x for x in {cap + 1, 2 * cap + 3, top // 2 - 1, top // 2, top // 2 + cap // 2, top - 3, top - 1} if cap < x < top):
                for Fx, how in forms:
                    img = ln.to_bytes(lb, "little") + data
                    st = TS.CountingIO(img + b"\x77")
                    d = _try(Fx.decode, st)
                    want = R.dec(desc, img, 0)[0]
                    okp = d[0] == "ok" and d[1] == want and st.tell() == len(img)
                    rep.case(("fixstr-len", cap, lb, ln, how), outcome="ok" if okp else "differs")
                    if not okp:
                        rep.violation("fixstr/decode-len-pattern", f"FixedSizeString({cap}, {how}).decode with LEN field {ln:#x} = {d!r:.80}, reference {want!r:.40}",
                                      {"kind": "fixstr", "cap": cap, "lb": lb, "n": 0})


def run_shard(shard, tier, seed):
    rep = Report()
    k = shard[0]
    if k == "type":
        check_type(rep, TS.type_space(tier)[shard[1]], tier, shard[1])
    elif k == "patterns":
        check_patterns(rep, shard[1], tier)
    elif k == "golden":
        check_golden(rep)
    elif k == "structtag":
        check_structtag(rep)
    elif k == "fixstr":
        check_fixstr(rep, tier)
    return rep


def replay(r):
    rep = Report()
    k = r["kind"]
    if k == "type":
        node = TS.type_space(r["tier"])[r["type_index"]]
        v = node.values(r["tier"])[r["value_index"]]
        print("type :", node.label, "\nvalue:", repr(v)[:300])
        print("library encode ->", repr(_try(node.encode, v))[:300])
        try:
            e = R.enc(node.desc, v)
            print("reference bytes  :", e[:80].hex())
            print("library decode of reference bytes ->", repr(_try(node.decode, e))[:300])
        except R.RefError as x:
            print("out of reference domain:", x)
        check_type(rep, node, r["tier"], r["type_index"])
    elif k == "pattern":
        for part in range(8):
            check_patterns(rep, part, "quick")
    elif k == "golden":
        check_golden(rep)
    elif k == "structtag":
        check_structtag(rep)
    else:
        check_fixstr(rep, "thorough")
    for s, vs in rep.violations.items():
        print("  violates:", s, "::", vs[0].msg[:300])
    return not rep.violations

"""C06 — data-type codecs round-trip every value (E3, bounded-exhaustive)."""
from io import BytesIO

from vmc.core.report import Report
from vmc.ref import codec as R
from . import typespace as TS

META = {
    "rule": "product of the type grammar (all exported leaf types; Array with fixed / length-typed / unbounded length and "
    "T[n]; Struct with named, unnamed and duplicate members; nesting depth 2 quick / 3 thorough) with the value alphabet "
    "of each type (all values of 8/16-bit types, boundary+bit-pattern sets of wider ones, all exponents of REAL/LREAL, "
    "string lengths 0..prefix limit). A case = (type, value); non-trivial when the value is in the type's domain (the "
    "reference codec can encode it); distinct = distinct (type label, value).",
    "explanation": "bounded-exhaustive enumeration; every case runs the library's encode and decode",
    "assumptions": [
        "floats are compared bit-wise except that NaNs are one value",
        "a value is in a type's domain iff the reference codec (vmc/ref/codec.py) can encode it",
        "over-long inputs to fixed arrays compare with their truncation to the array length",
        "unbounded arrays and n_bytes(-1) consume the whole buffer, so the stream-position clause is skipped for them",
    ],
}
SENTINEL = b"\xa5\x5a\xc3"


def shards(tier, seed):
    return list(range(len(TS.type_space(tier))))


def describe(tier, seed):
    return {"bounds": {"types": len(TS.type_space(tier)), "grammar_depth": 3 if tier == "thorough" else 2}, "exhaustive": True}


def _try(f, *a):
    """Call f; a bytes argument to a decoder is wrapped in a stream with a read budget."""
    from vmc.core.explore import BudgetExceeded

    if getattr(f, "__name__", "") == "decode":
        a = tuple(TS.CountingIO(x) if isinstance(x, (bytes, bytearray)) else x for x in a)
    try:
        return ("ok", f(*a))
    except BudgetExceeded:
        return ("exc", "NonTerminating", "read budget exceeded")
    except Exception as e:  # noqa
        return ("exc", type(e).__name__, str(e)[:80])


def roundtrip_fails(node, v):
    try:
        exp = node.expected_roundtrip(v)
    except R.RefError:
        return False
    r = _try(node.encode, v)
    if r[0] != "ok":
        return True
    d = _try(node.decode, bytes(r[1]))
    return d[0] != "ok" or not node.same(d[1], exp)


def stream_fails(node, v):
    r = _try(node.encode, v)
    if r[0] != "ok":
        return False
    enc = bytes(r[1])
    st = TS.CountingIO(enc + SENTINEL)
    d = _try(node.decode, st)
    return d[0] == "ok" and (st.tell() != len(enc) or st.read() != SENTINEL)


def check_node(rep, node, tier, idx):
    prev_enc = None
    prev_exp = None
    vals = node.values(tier)
    sampled = False
    for vi, v in enumerate(vals):
        try:
            exp = node.expected_roundtrip(v)
            in_domain = True
        except R.RefError:
            in_domain = False
        if not in_domain:
            rep.case((node.label, repr(v)), nontrivial=False, outcome="out-of-domain", calls=0)
            continue
        r = _try(node.encode, v)
        calls = 1
        outcome = "ok"
        if r[0] != "ok":
            b = TS.blame(node, v, roundtrip_fails)
            rep.violation(f"roundtrip/encode-raises/{b.cls}", f"{node.label}.encode({v!r:.120}) raised {r[1]}: {r[2]}",
                          {"type_index": idx, "tier": tier, "value_index": vi, "clause": "roundtrip"})
            outcome = "encode-raises"
        else:
            enc = bytes(r[1])
            d = _try(node.decode, enc)
            calls += 1
            if d[0] != "ok":
                b = TS.blame(node, v, roundtrip_fails)
                rep.violation(f"roundtrip/decode-raises/{b.cls}", f"{node.label}.decode(encode({v!r:.120})) raised {d[1]}: {d[2]} (encoded {enc[:40].hex()})",
                              {"type_index": idx, "tier": tier, "value_index": vi, "clause": "roundtrip"})
                outcome = "decode-raises"
            elif not node.same(d[1], exp):
                b = TS.blame(node, v, roundtrip_fails)
                rep.violation(f"roundtrip/value-differs/{b.cls}", f"{node.label}: decode(encode({v!r:.120})) = {d[1]!r:.120}, expected {exp!r:.120}",
                              {"type_index": idx, "tier": tier, "value_index": vi, "clause": "roundtrip"})
                outcome = "value-differs"
            if not node.consumes_all:
                st = TS.CountingIO(enc + SENTINEL)
                d2 = _try(node.decode, st)
                calls += 1
                if d2[0] == "ok" and (st.tell() != len(enc) or st.read() != SENTINEL):
                    b = TS.blame(node, v, stream_fails)
                    rep.violation(f"stream-position/{b.cls}", f"{node.label}: decoding {len(enc)} encoded bytes + sentinel left the stream at {st.tell()}",
                                  {"type_index": idx, "tier": tier, "value_index": vi, "clause": "stream"})
                    outcome = "stream-position"
                # composition: two consecutive values from one stream
                if prev_enc is not None and d[0] == "ok" and outcome == "ok":
                    st = TS.CountingIO(prev_enc + enc + SENTINEL)
                    a = _try(node.decode, st)
                    bb = _try(node.decode, st)
                    calls += 2
                    if not (a[0] == "ok" and bb[0] == "ok" and node.same(a[1], prev_exp) and node.same(bb[1], exp) and st.read() == SENTINEL):
                        rep.violation(f"composition/{node.cls}", f"{node.label}: two consecutive values do not decode in sequence: {a!r:.80} {bb!r:.80}",
                                      {"type_index": idx, "tier": tier, "value_index": vi, "clause": "compose"})
                        outcome = "composition"
                if outcome == "ok" and d[0] == "ok":
                    prev_enc, prev_exp = enc, exp
            if node.kind == "struct" and getattr(node, "all_named", False) and isinstance(v, dict):
                pos = _try(node.encode, [v[n] for n in node.names])
                calls += 1
                if pos[0] != "ok" or bytes(pos[1]) != enc:
                    rep.violation(f"dict-vs-positional/{node.cls}", f"{node.label}: encode(dict) = {enc[:40].hex()} but encode(positional) = {pos!r:.100}",
                                  {"type_index": idx, "tier": tier, "value_index": vi, "clause": "dictpos"})
                    outcome = "dict-vs-positional"
                # a dict is looked up by member name: the order in which its keys were inserted must not matter
                for how, dv in (("reversed", dict(reversed(list(v.items())))), ("rotated", dict(list(v.items())[1:] + list(v.items())[:1]))):
                    if len(v) < 2:
                        break
                    alt = _try(node.encode, dv)
                    calls += 1
                    if alt[0] != "ok" or bytes(alt[1]) != enc:
                        rep.violation(f"dict-key-order/{node.cls}", f"{node.label}: encode of the same dict with keys inserted in {how} order = {alt!r:.100}, in declaration order {enc[:40].hex()}",
                                      {"type_index": idx, "tier": tier, "value_index": vi, "clause": "dictpos"})
                        outcome = "dict-key-order"
            if not sampled:
                rep.sample({"type": node.label, "value": repr(v)[:80], "encoded": enc[:32].hex()})
                sampled = True
        rep.case((node.label, repr(v)), nontrivial=True, outcome=(outcome + ":" + node.cls) if outcome == "ok" else outcome, calls=calls)


def run_shard(shard, tier, seed):
    rep = Report()
    node = TS.type_space(tier)[shard]
    check_node(rep, node, tier, shard)
    rep.add("types", 1)
    return rep


def replay(r):
    node = TS.type_space(r["tier"])[r["type_index"]]
    v = node.values(r["tier"])[r["value_index"]]
    print("type :", node.label)
    print("value:", repr(v)[:300])
    e = _try(node.encode, v)
    print("encode ->", repr(e)[:300])
    try:
        print("expected round trip:", repr(node.expected_roundtrip(v))[:300])
    except R.RefError as x:
        print("out of reference domain:", x)
    if e[0] == "ok":
        print("decode ->", repr(_try(node.decode, bytes(e[1])))[:300])
    rep = Report()
    check_node(rep, node, r["tier"], r["type_index"])
    bad = [s for s in rep.violations]
    for s in bad:
        print("  violates:", s)
    return not bad

"""C06 — data-type codecs round-trip every value (E3, bounded-exhaustive)."""
from io import BytesIO

from vmc.core.report import Report
from vmc.ref import codec as R
from . import typespace as TS

META = {
    "rule": "product of the type grammar (all exported leaf types; Array with fixed / length-typed / unbounded length and "
    "T[n]; Struct with named, unnamed and duplicate members; nesting depth 2 quick / 3 thorough) with the value alphabet "
    "of each type (all values of 8/16-bit types, boundary+bit-pattern sets of wider ones, all exponents of REAL/LREAL, "
    "string lengths 0..prefix limit). A case = (type, value); non-trivial when the value is in the type's domain (the "
    "reference codec can encode it); distinct = distinct (type label, value).",
    "explanation": "bounded-exhaustive enumeration; every case runs the library's encode and decode",
    "assumptions": [
        "floats are compared bit-wise except that NaNs are one value",
        "a value is in a type's domain iff the reference codec (vmc/ref/codec.py) can encode it",
        "over-long inputs to fixed arrays compare with their truncation to the array length",
        "unbounded arrays and n_bytes(-1) consume the whole buffer, so the stream-position clause is skipped for them",
    ],
}
SENTINEL = b"\xa5\x5a\xc3"


def shards(tier, seed):
    n = len(TS.type_space(tier))
    return list(range(n)) + ["identity", "fixstr-overlong"] + [("@", i, "python-O") for i in range(n)] + [("@", "identity", "python-O")] + [("@", i, "debuglog") for i in range(0, n, 7)]


SERIALS = sorted({0, 1, 0xF, 0x10, 0xABC, 0xABCD, 0xABCDE, 0xABCDEF, 0xABCDEF0, 0x0FFFFFFF, 0x10000000, 0x80000000, 0xFFFFFFFF, 0x00000A0B, 0x0F000000, 0xDEADBEEF})


def _names_unique(c16, want):
    """Several vendor / product-type ids may carry one name: encoding such a name may pick any of them (the round trip still closes), so the
    encoded bytes are compared with the device's only when the names are unambiguous."""
    ven, pt = c16.tables()
    return sum(1 for v in ven.values() if v == want["vendor"]) == 1 and sum(1 for v in pt.values() if v == want["product_type"]) == 1


def run_fixstr_overlong(rep, tier):
    """Fixed-capacity strings given more characters than they hold: the value is cut to the capacity, and what was written decodes to exactly
    that cut value, alone, from a stream and as a structure member with another member behind it."""
    import io
    import pycomm3.cip as C
    from pycomm3.custom_types import FixedSizeString

    for size, lt, cap in ((84, C.UDINT, 82), (82, C.UDINT, None), (12, C.UDINT, 10), (20, C.UINT, 20), (8, C.USINT, 5), (1, C.UDINT, None), (4, C.UDINT, 1)):
        F = FixedSizeString(size, lt, cap) if cap is not None else FixedSizeString(size, lt)
        ml = cap if cap is not None else size
        S = C.Struct(F("s"), C.UINT("tail"))
        for extra in (0, 1, 2, 5, size - ml + 1, size + 7, 300):
            v = "".join(chr(65 + i % 26) for i in range(ml + extra))
            want = v[:ml]
            e1 = _try(F.encode, v)
            st = io.BytesIO((bytes(e1[1]) if e1[0] == "ok" else b"") + b"TAIL")
            d1 = _try(F.decode, st) if e1[0] == "ok" else None
            e2 = _try(S.encode, {"s": v, "tail": 0xBEEF})
            d2 = _try(S.decode, bytes(e2[1])) if e2[0] == "ok" else None
            prob = None
            if e1[0] != "ok" or d1 != ("ok", want) or st.read() != b"TAIL":
                prob = ("alone", f"decode(encode({len(v)} characters)) -> {d1!r:.80} (encode {e1!r:.60}), expected the first {ml} characters and the stream left behind the value")
            elif e2[0] != "ok" or d2 != ("ok", {"s": want, "tail": 0xBEEF}):
                prob = ("member", f"as a structure member in front of a UINT: {d2!r:.100}, expected {{'s': first {ml} characters, 'tail': 48879}}")
            rep.case(("fixstr-overlong", size, lt.__name__, cap, extra), outcome="ok:" + ("cut" if extra else "fits") if not prob else prob[0])
            if prob:
                rep.violation(f"fixstr-overlong/{prob[0]}", f"FixedSizeString({size}, {lt.__name__}, max_len={cap}) given {len(v)} characters: {prob[1]}", {"clause": "fixstr-overlong", "tier": tier})
    rep.sample({"type": "FixedSizeString over-long values", "layouts": 7})


def run_identity(rep, tier):
    """Identity objects: decode(encode(v)) == v for the module identity (the one the library encodes), and both identity decoders
    consume exactly their bytes.  Values: every field of the reference identity swept on its own (C16's sweeps) and serial numbers
    of every hex length."""
    import io
    from pycomm3.custom_types import ModuleIdentityObject, ListIdentityObject
    from vmc.checks import c16
    from vmc.ref import wire as W

    def cases():
        for f, idn in c16.sweeps(tier, tier == "thorough"):
            yield f, idn
        for s in SERIALS:
            for name in (b"", b"1756-L83E/B"):
                yield "serial", dict(c16.base(), serial=s, product_name=name)

    for f, idn in cases():
        want = c16.expected(idn, "module")
        prob = None
        if want["vendor"] != "UNKNOWN" and want["product_type"] != "UNKNOWN":
            enc = _try(ModuleIdentityObject.encode, want)
            if enc[0] != "ok":
                prob = ("encode-raises", f"ModuleIdentityObject.encode({want!r:.140}) -> {enc!r:.100}")
            else:
                st = io.BytesIO(bytes(enc[1]) + b"TAIL")
                back = _try(ModuleIdentityObject.decode, st)
                if back != ("ok", want):
                    prob = ("roundtrip", f"ModuleIdentityObject.decode(encode(v)) = {back!r:.160} for v = {want!r:.160}")
                elif st.read() != b"TAIL":
                    prob = ("stream", f"ModuleIdentityObject.decode left the stream at the wrong place after {want!r:.100}")
                elif bytes(enc[1]) != W.identity_body(idn) and _names_unique(c16, want):
                    prob = ("bytes", f"ModuleIdentityObject.encode({want!r:.100}) = {bytes(enc[1]).hex()}, identity object bytes are {W.identity_body(idn).hex()}")
        if prob is None:
            li = W.list_identity_item(idn)[2:]
            st = io.BytesIO(li + b"TAIL")
            got = _try(ListIdentityObject.decode, st)
            if got != ("ok", c16.expected(idn, "list")):
                prob = ("list-decode", f"ListIdentityObject.decode -> {got!r:.160}, identity {c16.expected(idn, 'list')!r:.160}")
            elif st.read() != b"TAIL":
                prob = ("stream", "ListIdentityObject.decode left the stream at the wrong place")
        rep.case(("identity", f, idn["serial"], repr(idn["product_name"]), idn["vendor"], idn["product_type"], idn["product_code"], idn["major"], idn["minor"], bytes(idn["status"]), idn.get("ip"), idn.get("state"), idn.get("encap_version")), outcome="ok:identity" if prob is None else prob[0])
        if prob:
            rep.violation(f"identity/{prob[0]}/{f}", prob[1], {"clause": "identity", "tier": tier})
    rep.sample({"type": "ModuleIdentityObject / ListIdentityObject", "serials": ["%08x" % s for s in SERIALS[:6]]})


def describe(tier, seed):
    return {"bounds": {"types": len(TS.type_space(tier)), "grammar_depth": 3 if tier == "thorough" else 2}, "exhaustive": True}


def _try(f, *a):
    """Call f; a bytes argument to a decoder is wrapped in a stream with a read budget."""
    from vmc.core.explore import BudgetExceeded

    if getattr(f, "__name__", "") == "decode":
        a = tuple(TS.CountingIO(x) if isinstance(x, (bytes, bytearray)) else x for x in a)
    try:
        return ("ok", f(*a))
    except BudgetExceeded:
        return ("exc", "NonTerminating", "read budget exceeded")
    except Exception as e:  # noqa
        return ("exc", type(e).__name__, str(e)[:80])


def roundtrip_fails(node, v):
    try:
        exp = node.expected_roundtrip(v)
    except R.RefError:
        return False
    r = _try(node.encode, v)
    if r[0] != "ok":
        return True
    d = _try(node.decode, bytes(r[1]))
    return d[0] != "ok" or not node.same(d[1], exp)


def stream_fails(node, v):
    r = _try(node.encode, v)
    if r[0] != "ok":
        return False
    enc = bytes(r[1])
    st = TS.CountingIO(enc + SENTINEL)
    d = _try(node.decode, st)
    return d[0] == "ok" and (st.tell() != len(enc) or st.read() != SENTINEL)


def check_node(rep, node, tier, idx):
    prev_enc = None
    prev_exp = None
    vals = node.values(tier)
    sampled = False
    for vi, v in enumerate(vals):
        try:
            exp = node.expected_roundtrip(v)
            in_domain = True
        except R.RefError:
            in_domain = False
        if not in_domain:
            rep.case((node.label, repr(v)), nontrivial=False, outcome="out-of-domain", calls=0)
            continue
        r = _try(node.encode, v)
        calls = 1
        outcome = "ok"
        if r[0] != "ok":
            b = TS.blame(node, v, roundtrip_fails)
            rep.violation(f"roundtrip/encode-raises/{b.cls}", f"{node.label}.encode({v!r:.120}) raised {r[1]}: {r[2]}",
                          {"type_index": idx, "tier": tier, "value_index": vi, "clause": "roundtrip"})
            outcome = "encode-raises"
        else:
            enc = bytes(r[1])
            d = _try(node.decode, enc)
            calls += 1
            if d[0] != "ok":
                b = TS.blame(node, v, roundtrip_fails)
                rep.violation(f"roundtrip/decode-raises/{b.cls}", f"{node.label}.decode(encode({v!r:.120})) raised {d[1]}: {d[2]} (encoded {enc[:40].hex()})",
                              {"type_index": idx, "tier": tier, "value_index": vi, "clause": "roundtrip"})
                outcome = "decode-raises"
            elif not node.same(d[1], exp):
                b = TS.blame(node, v, roundtrip_fails)
                rep.violation(f"roundtrip/value-differs/{b.cls}", f"{node.label}: decode(encode({v!r:.120})) = {d[1]!r:.120}, expected {exp!r:.120}",
                              {"type_index": idx, "tier": tier, "value_index": vi, "clause": "roundtrip"})
                outcome = "value-differs"
            if not node.consumes_all:
                st = TS.CountingIO(enc + SENTINEL)
                d2 = _try(node.decode, st)
                calls += 1
                if d2[0] == "ok" and (st.tell() != len(enc) or st.read() != SENTINEL):
                    b = TS.blame(node, v, stream_fails)
                    rep.violation(f"stream-position/{b.cls}", f"{node.label}: decoding {len(enc)} encoded bytes + sentinel left the stream at {st.tell()}",
                                  {"type_index": idx, "tier": tier, "value_index": vi, "clause": "stream"})
                    outcome = "stream-position"
                # composition: two consecutive values from one stream
                if prev_enc is not None and d[0] == "ok" and outcome == "ok":
                    st = TS.CountingIO(prev_enc + enc + SENTINEL)
                    a = _try(node.decode, st)
                    bb = _try(node.decode, st)
                    calls += 2
                    if not (a[0] == "ok" and bb[0] == "ok" and node.same(a[1], prev_exp) and node.same(bb[1], exp) and st.read() == SENTINEL):
                        rep.violation(f"composition/{node.cls}", f"{node.label}: two consecutive values do not decode in sequence: {a!r:.80} {bb!r:.80}",
                                      {"type_index": idx, "tier": tier, "value_index": vi, "clause": "compose"})
                        outcome = "composition"
                if outcome == "ok" and d[0] == "ok":
                    prev_enc, prev_exp = enc, exp
            if outcome == "ok" and d[0] == "ok" and isinstance(d[1], (list, dict)):
                # the decoded value belongs to the caller: changing it in place does not change what the same bytes decode to next time
                def scramble(x):
                    if isinstance(x, list):
                        for i_, e_ in enumerate(x):
                            scramble(e_)
                            x[i_] = None
                        x.append("junk")
                    elif isinstance(x, dict):
                        for k_ in list(x):
                            scramble(x[k_])
                            x[k_] = None
                scramble(d[1])
                d4 = _try(node.decode, enc)
                calls += 1
                if d4[0] != "ok" or not node.same(d4[1], exp):
                    rep.violation(f"decoded-value-shared/{node.cls}", f"{node.label}: after the value decoded from {enc[:24].hex()} was modified in place, decoding the same bytes again gives {d4!r:.100}, expected {exp!r:.100}",
                                  {"type_index": idx, "tier": tier, "value_index": vi, "clause": "aliasing"})
                    outcome = "decoded-value-shared"
            if node.kind == "array" and outcome == "ok" and isinstance(v, (list, tuple)) and len(v) >= 1 and isinstance(exp, list) and len(exp) == len(v) \
                    and node.children and node.children[0].desc[0] != "bits" and not node.children[0].consumes_all and node._enc is None and node._dec is None:
                # the element count given explicitly to encode and decode (whatever kind of length the array type has): still a round trip,
                # and the decoder stops after that many elements
                n = len(v)
                r2 = _try(node.lib.encode, v, n)
                st = TS.CountingIO((bytes(r2[1]) if r2[0] == "ok" else b"") + SENTINEL)
                d3 = _try(node.lib.decode, st, n) if r2[0] == "ok" else None
                calls += 2
                if r2[0] != "ok" or d3[0] != "ok" or not node.same(d3[1], exp) or st.read() != SENTINEL:
                    rep.violation(f"explicit-count/{node.cls}", f"{node.label}: decode(encode({v!r:.100}, {n}), {n}) = {d3!r:.100} (encode -> {r2!r:.80}), expected {exp!r:.100} and the stream left behind the last element",
                                  {"type_index": idx, "tier": tier, "value_index": vi, "clause": "explicit-count"})
                    outcome = "explicit-count"
            if node.kind == "struct" and getattr(node, "all_named", False) and isinstance(v, dict):
                pos = _try(node.encode, [v[n] for n in node.names])
                calls += 1
                if pos[0] != "ok" or bytes(pos[1]) != enc:
                    rep.violation(f"dict-vs-positional/{node.cls}", f"{node.label}: encode(dict) = {enc[:40].hex()} but encode(positional) = {pos!r:.100}",
                                  {"type_index": idx, "tier": tier, "value_index": vi, "clause": "dictpos"})
                    outcome = "dict-vs-positional"
                # a dict is looked up by member name: the order in which its keys were inserted must not matter
                for how, dv in (("reversed", dict(reversed(list(v.items())))), ("rotated", dict(list(v.items())[1:] + list(v.items())[:1]))):
                    if len(v) < 2:
                        break
                    alt = _try(node.encode, dv)
                    calls += 1
                    if alt[0] != "ok" or bytes(alt[1]) != enc:
                        rep.violation(f"dict-key-order/{node.cls}", f"{node.label}: encode of the same dict with keys inserted in {how} order = {alt!r:.100}, in declaration order {enc[:40].hex()}",
                                      {"type_index": idx, "tier": tier, "value_index": vi, "clause": "dictpos"})
                        outcome = "dict-key-order"
            if not sampled:
                rep.sample({"type": node.label, "value": repr(v)[:80], "encoded": enc[:32].hex()})
                sampled = True
        rep.case((node.label, repr(v)), nontrivial=True, outcome=(outcome + ":" + node.cls) if outcome == "ok" else outcome, calls=calls)


def run_shard(shard, tier, seed):
    rep = Report()
    if shard == "identity":
        run_identity(rep, tier)
        return rep
    if shard == "fixstr-overlong":
        run_fixstr_overlong(rep, tier)
        return rep
    node = TS.type_space(tier)[shard]
    check_node(rep, node, tier, shard)
    rep.add("types", 1)
    return rep


def replay(r):
    if r.get("clause") == "fixstr-overlong":
        rep = Report()
        run_fixstr_overlong(rep, r["tier"])
        for s, vs in rep.violations.items():
            print("  violates:", s, "::", vs[0].msg[:300])
        return not rep.violations
    if r.get("clause") == "identity":
        rep = Report()
        run_identity(rep, r["tier"])
        for s, vs in rep.violations.items():
            print("  violates:", s, "::", vs[0].msg[:300])
        return not rep.violations
    node = TS.type_space(r["tier"])[r["type_index"]]
    v = node.values(r["tier"])[r["value_index"]]
    print("type :", node.label)
    print("value:", repr(v)[:300])
    e = _try(node.encode, v)
    print("encode ->", repr(e)[:300])
    try:
        print("expected round trip:", repr(node.expected_roundtrip(v))[:300])
    except R.RefError as x:
        print("out of reference domain:", x)
    if e[0] == "ok":
        print("decode ->", repr(_try(node.decode, bytes(e[1])))[:300])
    rep = Report()
    check_node(rep, node, r["tier"], r["type_index"])
    bad = [s for s in rep.violations]
    for s in bad:
        print("  violates:", s)
    return not bad

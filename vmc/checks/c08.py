"""C08 — codec failures are DataError: never foreign, silent or non-terminating (E3 + every truncation point)."""
from io import BytesIO

from vmc.core.explore import BudgetExceeded
from vmc.core.report import Report
from vmc.ref import codec as R
from . import typespace as TS

META = {
    "rule": "for every type of the C06 space: (a) every out-of-domain value of the type's invalid alphabet must make encode raise "
    "DataError (arrays also get sized non-sequence containers: dict, dict view, set, frozenset, deque with a bad element); (b) for every valid encoding of at most 64 bytes, every proper prefix, the empty buffer and every substitution "
    "of each of the first 4 bytes by {0x00,0x01,0x7F,0x80,0xFF,b^1} is decoded by library and reference: where the reference "
    "yields a value the library must yield the same value, where it fails the library must raise DataError "
    "(BufferEmptyError only if the reference ran out exactly at a value start); a counting stream enforces a read budget. "
    "Non-trivial = the reference rejects the input or the buffer differs from a valid encoding; distinct = distinct (type, input).",
    "explanation": "bounded-exhaustive enumeration of invalid inputs and of all truncation points (fault enumeration on the byte stream)",
    "assumptions": [
        "bool is an int; BOOL encodes any object by truthiness; int is accepted where a float is expected",
        "strings longer than a FixedSizeString capacity are not in the invalid alphabet (C02 governs truncation)",
        "zero-size element types under unbounded arrays are outside the type grammar; a separate shard demands only that decoding them terminates (value or DataError)",
        "a value is invalid for a type iff the reference codec rejects it",
    ],
}
MAXLEN = 64


CountingIO = TS.CountingIO


def shards(tier, seed):
    n = len(TS.type_space(tier))
    # every type once more in an interpreter started with -O: refusing a bad value must not rest on assert statements
    return list(range(n)) + ["epath-limits", "zero-width"] + [("@", i, "python-O") for i in range(n)] + [("@", "epath-limits", "python-O")]


def check_zero_width(rep):
    """Unbounded arrays whose element takes no bytes: whatever the answer, the call must come back (an empty list or DataError)."""
    import pycomm3.cip as C
    from pycomm3.exceptions import DataError
    from vmc.core.explore import BudgetExceeded

    types = {
        "Array(None, Array(0, UINT))": lambda: C.Array(None, C.Array(0, C.UINT)), "Array(None, Struct())": lambda: C.Array(None, C.Struct()),
        "Array(None, n_bytes(0))": lambda: C.Array(None, C.n_bytes(0)), "Array(None, Struct(Array(0, DINT)))": lambda: C.Array(None, C.Struct(C.Array(0, C.DINT)("z"))),
        "Struct(a:USINT, rest:Array(None, Array(0, SINT)))": lambda: C.Struct(C.USINT("a"), C.Array(None, C.Array(0, C.SINT))("rest")),
        "Array(None, WORD[0])": lambda: C.Array(None, C.Array(0, C.WORD)),
        # elements that take everything: the first one swallows the buffer, every later one is zero-width
        "Array(None, Array(None, DINT))": lambda: C.Array(None, C.Array(None, C.DINT)), "Array(None, Struct(vals:Array(None, UINT)))": lambda: C.Array(None, C.Struct(C.Array(None, C.UINT)("vals"))),
        "Array(None, n_bytes(-1))": lambda: C.Array(None, C.n_bytes(-1)), "Array(None, Struct(a:USINT, rest:n_bytes(-1)))": lambda: C.Array(None, C.Struct(C.USINT("a"), C.n_bytes(-1, "rest"))),
    }
    for name, mk in types.items():
        for buf in (b"", b"\x00", b"\x01\x02\x03", bytes(64), bytes(range(8))):
            try:
                T = mk()
                st = TS.CountingIO(buf, budget=4096)
                out = ("ok", T.decode(st))
            except DataError:
                out = ("DataError",)
            except BudgetExceeded:
                out = ("non-terminating",)
            except Exception as e:  # noqa
                out = ("foreign", type(e).__name__)
            ok = out[0] in ("ok", "DataError")
            rep.case(("zero-width", name, len(buf)), outcome=out[0])
            if not ok:
                rep.violation(f"zero-width-elements/{out[0]}", f"{name}.decode({len(buf)} bytes) -> {out!r:.80}: the call must terminate with a value or DataError", {"kind": "zero-width"})


def check_epath_limits(rep):
    """EPATH is a codec too: a path whose word count does not fit the one-byte length prefix is outside its domain."""
    from pycomm3.cip import PADDED_EPATH, PACKED_EPATH, LogicalSegment, DataSegment, PortSegment
    from pycomm3.exceptions import DataError

    # segment fields outside their domain: refused by every way of encoding the segment
    bad_segments = [("port", lambda v=v: PortSegment(v, 1), v) for v in (-1, -16, -65536, 0x10000, 1 << 40, 1.5, None, "nosuchport", b"\x01", [1], True if False else 2.0)]
    bad_segments += [("link", lambda v=v: PortSegment("bp", v), v) for v in (-1, 256, 1 << 32, 1.5, None, "256", "-1", "1.2.3", "", [1])]
    bad_segments += [("logical", lambda v=v: LogicalSegment(v, "instance_id"), v) for v in (-1, 1 << 32, 1 << 64, 1.5, None, "1", b"", b"\x01\x02\x03", [1])]
    bad_segments += [("logical-type", lambda v=v: LogicalSegment(1, v), v) for v in ("instance", "", None, 3)]
    for what, mk, v in bad_segments:
        for ename, enc in (("segment.encode", lambda s: s.encode(s)), ("segment.encode-padded", lambda s: s.encode(s, padded=True)), ("PADDED_EPATH", lambda s: PADDED_EPATH.encode([s], length=True)), ("PACKED_EPATH", lambda s: PACKED_EPATH.encode([s]))):
            try:
                out = ("returned", bytes(enc(mk())))
            except DataError:
                out = ("dataerror",)
            except Exception as e:  # noqa
                out = ("foreign", type(e).__name__)
            rep.case(("segment-invalid", what, repr(v), ename), outcome="seg:" + out[0])
            if out[0] != "dataerror":
                rep.violation(f"segment-field/{'encode-silent' if out[0] == 'returned' else 'encode-foreign-exception'}/{what}", f"{what} = {v!r} through {ename} -> {out!r:.80} (value is outside the field's domain)", {"kind": "epath-limits"})

    for cls, cname in ((PADDED_EPATH, "PADDED_EPATH"), (PACKED_EPATH, "PACKED_EPATH")):
        for words in (1, 2, 254, 255, 256, 257, 300, 1000):
            for form in ("logical", "symbolic", "bytes"):
                if form == "logical":
                    segs = [LogicalSegment(0x1234, "instance_id")] * (words // 2) + ([LogicalSegment(5, "class_id")] if words % 2 else [])
                    if cname == "PACKED_EPATH":
                        segs = [LogicalSegment(5, "class_id")] * words  # 2 bytes each when packed
                elif form == "symbolic":
                    segs = [DataSegment("ab")] * (words // 2) + ([LogicalSegment(5, "class_id")] if words % 2 else [])
                else:
                    segs = [b"\x20\x05"] * words
                for kw in (dict(length=True), dict(length=True, pad_length=True), dict()):
                    try:
                        out = ("ok", bytes(cls.encode(segs, **kw)))
                    except DataError:
                        out = ("DataError",)
                    except Exception as e:  # noqa
                        out = ("foreign", type(e).__name__)
                    fits = words <= 255 or not kw
                    if fits:
                        body = 2 * words
                        ok = out[0] == "ok" and len(out[1]) == body + (len(kw) if kw else 0) and (not kw or out[1][0] == words)
                    else:
                        ok = out == ("DataError",)
                    rep.case(("epath-limits", cname, words, form, tuple(kw)), nontrivial=not fits, outcome=out[0])
                    if not ok:
                        rep.violation(f"epath-length/{'encode-foreign-exception' if out[0] == 'foreign' else 'wrong-result'}",
                                      f"{cname}.encode({words} words of {form} segments, {kw}) -> {out!r:.80}; " + ("the count does not fit one byte: DataError required" if not fits else "expected the encoded path"),
                                      {"kind": "epath-limits"})


def describe(tier, seed):
    return {"bounds": {"types": len(TS.type_space(tier)), "max_encoding_len": MAXLEN, "prefixes": "all", "substituted_positions": 4}, "exhaustive": True}


def lib_decode(node, buf):
    from pycomm3.exceptions import DataError, BufferEmptyError

    st = CountingIO(buf, 8 * len(buf) + 64)
    try:
        return ("ok", node.decode(st))
    except BufferEmptyError:
        return ("empty",)
    except DataError:
        return ("dataerror",)
    except BudgetExceeded:
        return ("hang",)
    except Exception as e:  # noqa
        return ("foreign", type(e).__name__)


def ref_decode(node, buf):
    try:
        v, pos = R.dec(node.desc, buf, 0)
        if hasattr(node, "expected_roundtrip") and node.label in ("STRINGN",):
            pass
        return ("ok", v)
    except R.RefEmpty:
        return ("empty",)
    except R.RefError:
        return ("error",)
    except (UnicodeDecodeError, ValueError, OverflowError, MemoryError):
        return ("error",)


def decode_verdict(node, buf):
    """None if the library's behaviour on `buf` is acceptable, else (clause, detail)."""
    want = ref_decode(node, buf)
    got = lib_decode(node, buf)
    if got[0] == "hang":
        return ("decode-nonterminating", f"read budget exceeded on {buf.hex()}")
    if got[0] == "foreign":
        return ("decode-foreign-exception", f"raised {got[1]} on {buf.hex()}")
    if want[0] == "ok":
        if got[0] != "ok":
            return ("decode-rejects-valid", f"{got[0]} on {buf.hex()}, reference decodes {want[1]!r:.80}")
        wv = want[1]
        if node.label == "STRINGI":
            wv = tuple(wv)
            gv = tuple(got[1]) if isinstance(got[1], (tuple, list)) else got[1]
        else:
            gv = got[1]
        if not TS.same_value(gv, wv):
            return ("decode-wrong-value", f"{gv!r:.80} from {buf.hex()}, reference {wv!r:.80}")
        return None
    if got[0] == "ok":
        return ("decode-silent", f"returned {got[1]!r:.80} from the short/malformed buffer {buf.hex()}")
    if want[0] == "error" and got[0] == "empty":
        return ("decode-bufferempty-midvalue", f"BufferEmptyError on {buf.hex()} although bytes remain where the value starts")
    return None


def blame_buf(node, buf, pos=0):
    """Deepest component on which the reference decode of buf fails, if the library misbehaves on it alone."""
    cur = node
    while True:
        nxt = None
        p = pos
        if cur.kind == "array":
            ch = cur.children[0]
            ln = cur.desc[1]
            try:
                if isinstance(ln, tuple):
                    n, p = R.dec(("int", ln[1], False), buf, p)
                elif ln is None:
                    n = 1 << 30
                else:
                    n = ln
                for _ in range(min(n, 100000)):
                    if ln is None and p >= len(buf):
                        break
                    try:
                        _, p2 = R.dec(ch.desc, buf, p)
                        p = p2
                    except R.RefError:
                        nxt = (ch, p)
                        break
            except R.RefError:
                pass
        elif cur.kind == "struct":
            for ch in cur.children:
                try:
                    _, p = R.dec(ch.desc, buf, p)
                except R.RefError:
                    nxt = (ch, p)
                    break
                except Exception:  # noqa
                    break
        if nxt is None:
            return cur
        ch, cp = nxt
        try:
            bad = decode_verdict(ch, bytes(buf[cp:])) is not None
        except Exception:  # noqa
            bad = False
        if not bad:
            return cur
        cur, pos, buf = ch, 0, bytes(buf[cp:])


def check_node(rep, node, tier, idx):
    from pycomm3.exceptions import DataError

    # history first: the valid values are encoded before the invalid ones are offered (a value the type has seen does not make an equal-looking
    # one acceptable)
    for v in node.values("quick")[:300]:
        try:
            node.encode(v)
        except Exception:  # noqa - judged by C06 / C07
            pass
    # (a) invalid values
    for bi, bad in enumerate(node.invalid_values(tier)):
        try:
            R.enc(node.desc, bad)
            in_domain = True
        except R.RefError:
            in_domain = False
        except Exception:  # noqa  (reference confused by a wildly wrong shape: also invalid)
            in_domain = False
        if in_domain:
            rep.case((node.label, "inv", repr(bad)), nontrivial=False, outcome="actually-valid", calls=0)
            continue
        try:
            out = node.encode(bad)
            got = ("returned", out)
        except DataError:
            got = ("dataerror",)
        except Exception as e:  # noqa
            got = ("foreign", type(e).__name__)
        rep.case((node.label, "inv", repr(bad)[:200]), outcome="enc:" + got[0])
        if got[0] != "dataerror":
            def fails(n, v):
                try:
                    R.enc(n.desc, v)
                    return False
                except R.RefError:
                    pass
                except Exception:  # noqa
                    pass
                try:
                    n.encode(v)
                    return True
                except DataError:
                    return False
                except Exception:  # noqa
                    return True
            b = TS.blame(node, bad, fails)
            clause = "encode-silent" if got[0] == "returned" else "encode-foreign-exception"
            rep.violation(f"{clause}/{b.cls}", f"{node.label}.encode({bad!r:.100}) -> {got!r:.100} (value is outside the type's domain)",
                          {"kind": "invalid", "type_index": idx, "tier": tier, "bad_index": bi})
    # (b) truncations and substitutions of valid encodings
    seen = set()
    sampled = False
    for vi, v in enumerate(node.values(tier)):
        try:
            enc = R.enc(node.desc, v)
        except R.RefError:
            continue
        if len(enc) > MAXLEN or enc in seen:
            continue
        seen.add(enc)
        if len(seen) > (4000 if tier == "thorough" else 600):
            break  # alphabet of *encodings* per type is bounded; reported in describe()/rule
        bufs = [enc[:k] for k in range(len(enc))]
        for pos in range(min(4, len(enc))):
            for sub in (0x00, 0x01, 0x7F, 0x80, 0xFF, enc[pos] ^ 1):
                if sub != enc[pos]:
                    bufs.append(enc[:pos] + bytes([sub]) + enc[pos + 1 :])
        for buf in bufs:
            verdict = decode_verdict(node, buf)
            rep.case((node.label, "buf", buf), outcome="dec:" + (verdict[0] if verdict else "agree"))
            if verdict:
                b = blame_buf(node, buf)
                rep.violation(f"{verdict[0]}/{b.cls}", f"{node.label}.decode: {verdict[1]}",
                              {"kind": "buffer", "type_index": idx, "tier": tier, "buffer": buf})
        if len(seen) <= 3:
            # (c) the same bytes handed over in another kind of buffer: a stream that is not a BytesIO decodes like one; containers the
            # decoder does not take (bytearray, memoryview, None) are refused with DataError like any other bad argument - never a foreign exception
            import io
            from pycomm3.exceptions import DataError as DE

            for bname, buf in (("full", enc), ("half", enc[: len(enc) // 2]), ("empty", b"")):
                for kname, mk in (("buffered-reader", lambda b: io.BufferedReader(io.BytesIO(b))), ("bytearray", bytearray), ("memoryview", memoryview), ("none", lambda b: None)):
                    try:
                        got = ("ok", node.decode(mk(buf)))
                    except DE:
                        got = ("dataerror",)
                    except BudgetExceeded:
                        got = ("hang",)
                    except Exception as e:  # noqa
                        got = ("foreign", type(e).__name__, str(e)[:60])
                    want = ref_decode(node, buf)
                    prob = None
                    if got[0] in ("foreign", "hang"):
                        prob = ("decode-foreign-exception", f"{got!r:.100}")
                    elif got[0] == "ok" and (want[0] != "ok" or not TS.same_value(tuple(got[1]) if node.label == "STRINGI" and isinstance(got[1], (list, tuple)) else got[1], tuple(want[1]) if node.label == "STRINGI" else want[1])):
                        prob = ("decode-silent" if want[0] != "ok" else "decode-wrong-value", f"returned {got[1]!r:.80}, reference {want!r:.80}")
                    elif kname == "buffered-reader" and want[0] == "ok" and got[0] != "ok":
                        prob = ("decode-rejects-valid", f"{got[0]} although the bytes are a valid encoding of {want[1]!r:.60}")
                    rep.case((node.label, "bufkind", kname, bname, enc), outcome=f"bufkind:{kname}:{got[0]}" if not prob else prob[0])
                    if prob:
                        rep.violation(f"{prob[0]}/buffer-kind/{kname}", f"{node.label}.decode({kname} holding {buf.hex()}): {prob[1]}", {"kind": "bufkind", "type_index": idx, "tier": tier})
        if not sampled:
            rep.sample({"type": node.label, "encoding": enc.hex(), "buffers_tried": len(bufs)})
            sampled = True


def run_shard(shard, tier, seed):
    rep = Report()
    if shard == "epath-limits":
        check_epath_limits(rep)
        return rep
    if shard == "zero-width":
        check_zero_width(rep)
        return rep
    check_node(rep, TS.type_space(tier)[shard], tier, shard)
    return rep


def replay(r):
    from pycomm3.exceptions import DataError

    if r.get("kind") == "zero-width":
        rep = Report()
        check_zero_width(rep)
        for s_, vs in rep.violations.items():
            print("  violates:", s_, "::", vs[0].msg[:300])
        return not rep.violations
    if r.get("kind") == "epath-limits":
        rep = Report()
        check_epath_limits(rep)
        for s_, vs in rep.violations.items():
            print("  violates:", s_, "::", vs[0].msg[:300])
        return not rep.violations
    node = TS.type_space(r["tier"])[r["type_index"]]
    print("type:", node.label)
    if r["kind"] == "bufkind":
        rep = Report()
        check_node(rep, node, r["tier"], r["type_index"])
        for s_, vs in rep.violations.items():
            if "/buffer-kind/" in s_:
                print("  violates:", s_, "::", vs[0].msg[:300])
        return not any("/buffer-kind/" in s_ for s_ in rep.violations)
    if r["kind"] == "invalid":
        bad = node.invalid_values(r["tier"])[r["bad_index"]]
        print("value:", repr(bad)[:300])
        try:
            out = node.encode(bad)
            print("encode returned", repr(out)[:200])
            return False
        except DataError as e:
            print("DataError:", e)
            return True
        except Exception as e:  # noqa
            print("foreign exception", type(e).__name__, e)
            return False
    buf = r["buffer"]
    print("buffer:", buf.hex())
    print("reference:", repr(ref_decode(node, buf))[:200])
    print("library  :", repr(lib_decode(node, buf))[:200])
    v = decode_verdict(node, buf)
    print("verdict  :", v)
    return v is None

"""C16 — device identities decode faithfully (E3 through all entry points)."""
import itertools
import json
import os
import struct

from vmc.core.report import Report
from vmc.ref import enip, net, wire as W
from .harness import call, make_target

META = {
    "rule": "one-factor-exhaustive sweeps around a base identity: vendor 0..65535, product type 0..65535, product code 0..65535, "
    "all 65536 (major, minor) pairs, all 65536 status words, serial over the 32-bit boundary/bit-pattern set, product-name "
    "lengths 0..255 with every Latin-1 code point occurring, IPv4 boundary set, state 0..255, encapsulation version boundary "
    "set; plus the pairwise product of the boundary values of all fields. Quick: sweeps exhaustive through the ListIdentity "
    "reply parser on a connected driver (_list_identity) and the identity codecs, boundary sets through list_identity(), "
    "discover(), get_module_info() and get_plc_info(); thorough: every sweep through every entry point. Oracle: the "
    "identity configured in the reference target, names from the library tables read as data (id -> name, 'UNKNOWN' when "
    "absent), serial as 8 lower-case hex digits. distinct = distinct (entry point, identity).",
    "explanation": "bounded-exhaustive enumeration; each case is one public call against the reference target",
    "assumptions": [
        "vendor / product-type names: golden/identity_tables.json (the tables as shipped at the pinned commit) for every id listed there, the library table for ids added later",
        "keyswitch texts come from golden/keyswitch.json (Rockwell KB 28917)",
        "ModuleIdentityObject is the only identity type the library can encode; ids without a table entry cannot be encoded and are skipped for the round-trip clause",
    ],
}
GOLDEN_KEY = os.path.join(os.path.dirname(os.path.dirname(os.path.dirname(os.path.abspath(__file__)))), "golden", "keyswitch.json")

B16 = sorted({0, 1, 2, 0x7F, 0x80, 0xFF, 0x100, 0x101, 0x7FFF, 0x8000, 0xFFFE, 0xFFFF, 14, 12, 0x0C, 9876, 1734, 50, 55})
B32 = sorted({0, 1, 0xFF, 0x100, 0xFFFF, 0x10000, 0x7FFFFFFF, 0x80000000, 0xFFFFFFFF, 0xC00FA09B, 0x00000A0B, 0x0F000000, 0x12345678, 0xDEADBEEF})
IPS = ["0.0.0.0", "255.255.255.255", "10.0.0.1", "192.168.1.100", "1.2.3.4", "127.0.0.1", "100.200.30.4", "0.0.0.255", "255.0.0.0"]


def name_of_len(n, rot=0):
    return "".join(chr((rot + n * 7 + i * 11) % 256) for i in range(n))


def base():
    d = dict(W.DEFAULT_IDENTITY)
    d["encap_version"] = 1
    return d


_TABLES = None
_GOLD = None


def tables():
    global _TABLES
    if _TABLES is None:
        _TABLES = _tables()
    return _TABLES


def _tables():
    from pycomm3.cip import status_info as S

    ven = {k: v for k, v in S.VENDORS.items() if isinstance(k, int)}
    pt = {k: v for k, v in S.PRODUCT_TYPES.items() if isinstance(k, int)}
    # the registered names as shipped at the pinned commit are the reference (golden/identity_tables.json): later versions may ADD
    # ids (the library's own table decides those), but an id that had a name keeps it
    g = json.load(open(os.path.join(os.path.dirname(GOLDEN_KEY), "identity_tables.json")))
    ven.update({int(k): v for k, v in g["vendors"].items()})
    pt.update({int(k): v for k, v in g["product_types"].items()})
    return ven, pt


def expected(idn, kind):
    ven, pt = tables()
    name = idn["product_name"]
    name = name.decode("latin-1") if isinstance(name, bytes) else name
    d = {
        "vendor": ven.get(idn["vendor"], "UNKNOWN"),
        "product_type": pt.get(idn["product_type"], "UNKNOWN"),
        "product_code": idn["product_code"],
        "revision": {"major": idn["major"], "minor": idn["minor"]},
        "status": bytes(idn["status"]),
        "serial": "%08x" % idn["serial"],
        "product_name": name,
    }
    if kind == "list":
        d.update(encap_protocol_version=idn.get("encap_version", 1), ip_address=idn.get("ip", "10.0.0.1"), state=idn.get("state", 3))
    if kind == "plc":
        global _GOLD
        if _GOLD is None:
            _GOLD = json.load(open(GOLDEN_KEY))["keyswitch"]
        g = _GOLD
        s0, s1 = bytes(idn["status"])
        d["keyswitch"] = g.get(str(s0), {}).get(str(s1), "UNKNOWN")
    return d


def sweeps(tier, full):
    """(factor name, identity) pairs."""
    b = base()
    rng16 = range(65536) if full else B16
    for v in rng16:
        yield "vendor", dict(b, vendor=v)
    for v in rng16:
        yield "product_type", dict(b, product_type=v)
    for v in rng16:
        yield "product_code", dict(b, product_code=v)
    revs = itertools.product(range(256), repeat=2) if full else itertools.product((0, 1, 20, 32, 127, 128, 255), repeat=2)
    for ma, mi in revs:
        yield "revision", dict(b, major=ma, minor=mi)
    for v in rng16:
        yield "status", dict(b, status=struct.pack("<H", v))
    for v in B32:
        yield "serial", dict(b, serial=v)
    for n in (range(256) if full else (0, 1, 2, 31, 32, 33, 127, 128, 254, 255)):
        yield "product_name", dict(b, product_name=name_of_len(n).encode("latin-1"))
    for rot in range(0, 256, 16):
        yield "product_name", dict(b, product_name=name_of_len(32, rot).encode("latin-1"))
    # every byte value as the first, the last and the only character (NUL, blanks, control characters, 0x80..0x9F, 0xFF): names are not trimmed or re-coded
    for c in range(256):
        ch = bytes([c])
        for nm in (ch, b"Widget" + ch, ch + b"Widget", b"Wid" + ch + b"get", b"W" + ch + ch):
            yield "product_name", dict(b, product_name=nm)
    for ip in IPS:
        yield "ip", dict(b, ip=ip)
    for st in (range(256) if full else (0, 1, 3, 5, 6, 254, 255)):
        yield "state", dict(b, state=st)
    for ev in (0, 1, 2, 0xFF, 0x100, 0xFFFF):
        yield "encap_version", dict(b, encap_version=ev)


def pairwise():
    b = base()
    fields = {
        "vendor": [0, 1, 0xFFFF, 9876], "product_type": [0, 14, 0xFFFF], "product_code": [0, 0xFFFF], "major": [0, 255], "minor": [0, 255],
        "status": [b"\x00\x00", b"\xff\xff", b"\x60\x31", b"\x70\x20"], "serial": [0, 0xFFFFFFFF, 0x0000000A], "product_name": [b"", b"x", name_of_len(255).encode("latin-1")],
        "state": [0, 255], "ip": ["0.0.0.0", "255.255.255.255"],
    }
    names = list(fields)
    for i, j in itertools.combinations(range(len(names)), 2):
        for a in fields[names[i]]:
            for c in fields[names[j]]:
                yield f"{names[i]}x{names[j]}", dict(b, **{names[i]: a, names[j]: c})


def shards(tier, seed):
    full = tier == "thorough"
    sh = [("parser", f) for f in ("vendor", "product_type", "product_code", "revision", "status", "rest")]
    sh += [("codec", f) for f in ("vendor", "product_type", "product_code", "revision", "status", "rest")]
    sh += [("api", ep, full) for ep in ("list_identity", "discover", "module_info", "plc_info", "plc_info_micro800")]
    sh += [("pairwise", ep) for ep in ("parser", "module_info")]
    sh += [("api", ep, False, "debuglog") for ep in ("list_identity", "discover", "module_info", "plc_info")]
    sh += [("api", ep, False, "python-O") for ep in ("list_identity", "discover", "module_info", "plc_info")] + [("codec", "rest", "python-O")]
    return sh


def describe(tier, seed):
    return {"bounds": {"16bit_fields": "0..65535", "revisions": "256x256", "name_lengths": "0..255", "entry_points": 5}, "exhaustive": True}


def compare(rep, ep, factor, idn, got, kind):
    want = expected(idn, kind)
    ok = got[0] == "ok" and got[1] == want
    rep.case((ep, factor, idn.get(factor, (idn["major"], idn["minor"])), idn["serial"], idn["state"], idn["product_code"]), outcome=("ok:" + factor) if ok else "bad")
    if not ok:
        diff = ""
        if got[0] == "ok" and isinstance(got[1], dict):
            diff = "; ".join(f"{k}: got {got[1].get(k)!r:.40} want {want.get(k)!r:.40}" for k in set(want) | set(got[1]) if got[1].get(k) != want.get(k))
        rep.violation(f"{ep}/{factor}", f"{ep} for identity with {factor}={idn.get(factor, idn.get('major'))!r:.40}: {diff or repr(got)[:160]}",
                      {"ep": ep, "factor": factor, "identity": {k: (v if not isinstance(v, bytes) else {"hex": v.hex()}) for k, v in idn.items()}})
    return ok


def in_factor(f, group):
    return f == group or (group == "rest" and f not in ("vendor", "product_type", "product_code", "revision", "status"))


def run_shard(shard, tier, seed):
    import pycomm3
    from pycomm3.custom_types import ModuleIdentityObject, ListIdentityObject
    from pycomm3.exceptions import DataError

    rep = Report()
    kind = shard[0]
    if kind == "parser":
        # ListIdentity over TCP on one connected driver: one round trip per identity
        t = make_target()
        with net.World(t, io_budget=10**9):
            d = pycomm3.CIPDriver("10.0.0.1")
            d.open()
            for f, idn in sweeps(tier, True):
                if not in_factor(f, shard[1]):
                    continue
                t.identity = idn
                compare(rep, "list-identity-parser", f, idn, call(d._list_identity), "list")
        rep.sample({"entry": "CIPDriver._list_identity", "factor": shard[1]})
    elif kind == "codec":
        ven, pt = tables()
        for f, idn in sweeps(tier, True):
            if not in_factor(f, shard[1]):
                continue
            body = W.identity_body(idn)
            compare(rep, "ModuleIdentityObject.decode", f, idn, call(ModuleIdentityObject.decode, body), "module")
            li = W.list_identity_item(idn)[2:]
            compare(rep, "ListIdentityObject.decode", f, idn, call(ListIdentityObject.decode, li), "list")
            want = expected(idn, "module")
            if want["vendor"] != "UNKNOWN" and want["product_type"] != "UNKNOWN":
                try:
                    back = ("ok", ModuleIdentityObject.decode(ModuleIdentityObject.encode(want)))
                except DataError as e:
                    back = ("dataerror", str(e)[:60])
                except Exception as e:  # noqa
                    back = ("foreign", type(e).__name__)
                ok = back == ("ok", want)
                rep.case(("roundtrip", f, repr(want)), outcome="ok" if ok else "bad")
                if not ok:
                    rep.violation(f"identity-roundtrip/{f}", f"ModuleIdentityObject.decode(encode({want!r:.120})) -> {back!r:.160}", {"ep": "roundtrip", "factor": f, "identity": {k: (v if not isinstance(v, bytes) else {"hex": v.hex()}) for k, v in idn.items()}})
        rep.sample({"entry": "identity codecs", "factor": shard[1]})
    elif kind == "api":
        ep, full = shard[1], shard[2]
        cases = list(sweeps(tier, full))
        if ep == "list_identity":
            t = make_target()
            with net.World(t, io_budget=10**9):
                for f, idn in cases:
                    t.identity = idn
                    compare(rep, "list_identity", f, idn, call(pycomm3.CIPDriver.list_identity, "10.0.0.1"), "list")
            # ListIdentity needs no session: a device that is out of sessions (refuses RegisterSession, with or without a handle in the
            # refusal) still reports its identity, also to the Logix and SLC driver classes
            for sess in ("refuse", "refuse-with-handle"):
                t = make_target(policy=enip.Policy(session=sess))
                with net.World(t, io_budget=10**8):
                    for f, idn in cases[:: max(1, len(cases) // 40)]:
                        t.identity = idn
                        for cls_ in (pycomm3.CIPDriver, pycomm3.LogixDriver, pycomm3.SLCDriver):
                            compare(rep, f"list_identity/session-refused/{cls_.__name__}", f, idn, call(cls_.list_identity, "10.0.0.1"), "list")
        elif ep == "discover":
            class T(enip.Target):
                ids = []

                def udp_identities(self):
                    return self.ids
            for i in range(0, len(cases), 3):
                grp = cases[i : i + 3]
                t = T(enip.IdentityDevice())
                t.ids = [idn for _, idn in grp]
                with net.World(t, io_budget=10**7):
                    got = call(pycomm3.CIPDriver.discover)
                want = [expected(idn, "list") for _, idn in grp]
                ok = got == ("ok", want)
                rep.case(("discover", i, repr([f for f, _ in grp])), outcome="ok" if ok else "bad")
                if not ok:
                    rep.violation(f"discover/{grp[0][0]}", f"discover() with {len(grp)} devices answering: {got!r:.200}; expected {want!r:.200}", {"ep": "discover", "factor": grp[0][0], "identity": {}})
            # unusable datagrams among the answers (an error status, a truncated identity item, garbage) at every position: the good ones all show up
            class TB(enip.Target):
                pattern = ()
                good = []

                def udp(self, data, addr, bound):
                    fr = W.parse_frame(data)
                    out, gi = [], 0
                    for kind_ in self.pattern:
                        if kind_ == "good":
                            out.append(W.build_frame(W.CMD_LIST_IDENTITY, 0, W.list_identity_item(self.good[gi]), context=fr.context))
                            gi += 1
                        elif kind_ == "status":
                            out.append(W.build_frame(W.CMD_LIST_IDENTITY, 0, W.list_identity_item(self.good[0]), status=0x65, context=fr.context))
                        elif kind_ == "header-only":
                            out.append(W.build_frame(W.CMD_LIST_IDENTITY, 0, b"", status=0x01, context=fr.context))
                        elif kind_ == "truncated":
                            full = W.build_frame(W.CMD_LIST_IDENTITY, 0, W.list_identity_item(self.good[0]), context=fr.context)
                            out.append(full[:40])
                        else:
                            out.append(b"\x00\x01\x02")
                    return out
            three = [idn for _, idn in cases[:3]]
            for bad_kind in ("status", "header-only", "truncated", "garbage"):
                for pattern in (("good", bad_kind, "good"), (bad_kind, "good", "good"), ("good", "good", bad_kind), (bad_kind, bad_kind, "good"), ("good", bad_kind, bad_kind, "good", "good")):
                    t = TB(enip.IdentityDevice())
                    t.pattern, t.good = pattern, three
                    with net.World(t, io_budget=10**7):
                        got = call(pycomm3.CIPDriver.discover)
                    want = [expected(idn, "list") for idn in three[: pattern.count("good")]]
                    ok = got == ("ok", want)
                    rep.case(("discover-bad", bad_kind, pattern), outcome="ok" if ok else "bad")
                    if not ok:
                        rep.violation(f"discover/unusable-datagram/{bad_kind}", f"discover() with answers {pattern!r}: {got!r:.200}; expected the {len(want)} good identities", {"ep": "discover", "factor": "none", "identity": {}})
            # no device answers -> empty list, no exception
            t = T(enip.IdentityDevice())
            with net.World(t, io_budget=10**6):
                got = call(pycomm3.CIPDriver.discover)
            rep.case(("discover-none",), outcome="ok" if got == ("ok", []) else "bad")
            if got != ("ok", []):
                rep.violation("discover/no-devices", f"discover() with no device answering -> {got!r:.160}", {"ep": "discover", "factor": "none", "identity": {}})
        elif ep == "module_info":
            t = make_target()
            with net.World(t, io_budget=10**9):
                d = pycomm3.CIPDriver("10.0.0.1/bp/0")
                d.open()
                for f, idn in cases:
                    if f in ("ip", "state", "encap_version"):
                        continue
                    t.identity = idn
                    compare(rep, "get_module_info", f, idn, call(d.get_module_info, 2), "module")
            # two racks bridged over Ethernet, a different module in every slot of both: get_module_info(slot) on a driver connected
            # through the bridge is about the REMOTE rack's slot
            for dpath, pre in (("10.0.0.1/bp/1/enet/10.11.12.13/bp/0", ((1, b"\x01"), (2, b"10.11.12.13"))), ("10.0.0.1/bp/3", ()), ("10.0.0.1/bp/1/enet/10.11.12.13/bp/2/enet/10.20.30.40/bp/1", ((1, b"\x01"), (2, b"10.11.12.13"), (1, b"\x02"), (2, b"10.20.30.40")))):
                t = make_target()
                topo = {}
                for rack, prefix in enumerate((pre, ()) if pre else ((),)):
                    for slot in range(5):
                        topo[tuple(prefix) + ((1, bytes([slot])),)] = dict(base(), product_code=1000 * (rack + 1) + slot, serial=0x1000 * (rack + 1) + slot, product_name=f"rack{rack}-slot{slot}".encode())
                if pre:
                    topo[(pre[0],)] = dict(base(), product_code=7, product_name=b"bridge")
                t.identity_by_route = topo
                with net.World(t, io_budget=10**7):
                    d = pycomm3.CIPDriver(dpath)
                    d.open()
                    for slot in range(5):
                        want_idn = topo[tuple(pre) + ((1, bytes([slot])),)]
                        compare(rep, "get_module_info/topology", "slot", want_idn, call(d.get_module_info, slot), "module")
                    call(d.close)
                    # E2: module and controller identities asked in turn on one driver: asking about a slot does not re-route the driver
                    d = pycomm3.LogixDriver(dpath, init_tags=False)
                    pycomm3.CIPDriver.open(d)
                    own = topo[tuple(pre) + ((1, bytes([int(dpath.rsplit("/", 1)[1])])),)]
                    for slot in (4, 0, 2, 2, 1):
                        want_idn = topo[tuple(pre) + ((1, bytes([slot])),)]
                        compare(rep, "get_module_info/history", "slot", want_idn, call(d.get_module_info, slot), "module")
                        compare(rep, "get_plc_info/after-module-info", "slot", own, call(d.get_plc_info), "plc")
                        ucs = call(d.generic_message, service=1, class_code=1, instance=1, connected=False, unconnected_send=True, route_path=True, data_type=pycomm3.custom_types.ModuleIdentityObject)
                        compare(rep, "generic_message/after-module-info", "slot", own, ("ok", ucs[1].value) if ucs[0] == "ok" else ucs, "module")
                    pycomm3.CIPDriver.close(d)
        else:
            micro = ep.endswith("micro800")
            t = make_target()
            with net.World(t, io_budget=10**9):
                d = pycomm3.LogixDriver("10.0.0.1", init_tags=False)
                d._micro800 = micro
                pycomm3.CIPDriver.open(d)
                for f, idn in cases:
                    if f in ("ip", "state", "encap_version"):
                        continue
                    t.identity = idn
                    t.cip_log.clear()
                    got = call(d.get_plc_info)
                    compare(rep, ep, f, idn, got, "plc")
                    tr = t.cip_log[-1]["transport"] if t.cip_log else None
                    if tr != ("ucmm" if micro else "ucsend"):
                        rep.violation(f"{ep}/transport", f"get_plc_info used transport {tr!r}", {"ep": ep, "factor": f, "identity": {}})
                # keyswitch table: every status byte pair of the golden table and their neighbours
                g = json.load(open(GOLDEN_KEY))["keyswitch"]
                for s0 in sorted({int(k) for k in g} | {0, 95, 97, 111, 113, 255}):
                    for s1 in sorted({int(k) for v in g.values() for k in v} | {0, 15, 18, 31, 34, 47, 50, 255}):
                        idn = dict(base(), status=bytes([s0, s1]))
                        t.identity = idn
                        compare(rep, ep, "keyswitch", idn, call(d.get_plc_info), "plc")
            if micro:
                # the real thing: LogixDriver.open() against a device that IS a Micro800 (product name 2080-..., answers Identity only when asked
                # directly, has no message router to unwrap an Unconnected Send); the identity gathered while opening must be the device's
                for pname in (b"2080-LC50-48QWB", b"2080-LC30-10QVB"):
                    idn = dict(base(), product_name=pname, product_code=137, serial=0x00C0FFEE)
                    dev = enip.IdentityDevice(lambda req, info: (0x08, [], b"") if info.get("transport") == "ucsend" else None)
                    t2 = make_target(dev)
                    t2.identity = idn
                    with net.World(t2, io_budget=10**6):
                        d2 = pycomm3.LogixDriver("10.0.0.1", init_tags=False)
                        o = call(d2.open)
                        got = ("ok", {k: v for k, v in d2.info.items() if k in expected(idn, "plc")}) if o == ("ok", True) else o
                        compare(rep, "open/micro800", "product_name", idn, got, "plc")
                        call(d2.close)
        rep.sample({"entry": ep, "cases": len(cases)})
    elif kind == "pairwise":
        t = make_target()
        with net.World(t, io_budget=10**9):
            d = pycomm3.CIPDriver("10.0.0.1/bp/0")
            d.open()
            for f, idn in pairwise():
                t.identity = idn
                if shard[1] == "parser":
                    compare(rep, "list-identity-parser", f, idn, call(d._list_identity), "list")
                else:
                    compare(rep, "get_module_info", f, idn, call(d.get_module_info, 1), "module")
        rep.sample({"entry": shard[1], "pairwise": True})
    return rep


def replay(r):
    import pycomm3
    from vmc.core.report import unjson

    idn = unjson(r.get("identity") or {})
    if not idn:
        print("(group case: re-run the check to reproduce)")
        return False
    ep = r["ep"]
    t = make_target(identity=idn)
    with net.World(t, io_budget=10**7):
        if ep in ("list_identity", "list-identity-parser"):
            got, kind = call(pycomm3.CIPDriver.list_identity, "10.0.0.1"), "list"
        elif ep == "get_module_info":
            d = pycomm3.CIPDriver("10.0.0.1/bp/0"); d.open()
            got, kind = call(d.get_module_info, 2), "module"
        elif ep.startswith("plc_info"):
            d = pycomm3.LogixDriver("10.0.0.1", init_tags=False); d._micro800 = ep.endswith("micro800"); pycomm3.CIPDriver.open(d)
            got, kind = call(d.get_plc_info), "plc"
        else:
            from pycomm3.custom_types import ModuleIdentityObject
            got, kind = call(ModuleIdentityObject.decode, W.identity_body(idn)), "module"
    want = expected(idn, kind)
    print("configured:", idn, "\nreturned  :", got, "\nexpected  :", want)
    return got == ("ok", want)

"""C17 — connected messages carry fresh sequence counts (E2 over counter phase x operation)."""
from vmc.core.report import Report
from vmc.ref import enip, net, logix, projgen, slc
from vmc.ref.projects import fill_image
from .harness import call
from . import c18

META = {
    "rule": "operations {generic connected message, single read, multi-service read of 2 and of many, fragmented read, single write, multi "
    "write, fragmented write, bit write, merged bit writes, tag-list upload, a redundant open() on the open driver, SLC read, SLC write}; each operation is executed with the "
    "connection's counter at EVERY phase 1..65535 (quick: every phase for the cheap operations, the window of 96 phases around the "
    "wrap for the others; a bitmap of visited (operation, phase) pairs proves the coverage), the target records the sequence count of "
    "every connected message. Oracle: the target's class-3 duplicate detector never fires (consecutive messages on a connection "
    "carry different counts, within an operation, between repetitions and across the wrap); composed over ordered pairs of operations "
    "from the per-phase records: last(A, p) != first(B, phase after A); plus a continuous mixed history of all operations crossing the "
    "wrap; fragmented reads whose 1st / 2nd-3rd fragment reply is an empty 'partial transfer'; single calls of 65533, 65534 (thorough also 65535, 131069) requests, "
    "i.e. around the counter's modulus; histories that start at open() (every single and ordered pair - thorough also triples - of 14 operations incl. uploads/fragment "
    "transfers/reads/writes during which the controller refuses the n-th service) on Micro800 / v20 / v32 controllers with and without tag upload. states = visited (operation, phase) pairs; distinct = distinct (operation, phase).",
    "explanation": "exhaustive exploration of the (counter phase x operation) graph with a duplicate detector in the target",
    "assumptions": [
        "the counter is positioned by drawing from the driver's own generator when it is reachable (else by sending 1-count filler messages); the oracle reads only the wire",
        "an operation's counts depend only on the counter phase (cross-checked by the direct mixed history)",
    ],
}
WRAP = 65535
CHEAP = ("generic", "read1", "write1", "bitwrite", "read2", "write2", "slc_read", "slc_write")


def make_world(kind, extra=None):
    import pycomm3

    if kind == "slc":
        dev = c18.new_table(0)
        dev.make_directory(200)
        t = enip.Target(dev, keep_cip=False, keep_seqs=True)
        w = net.World(t, io_budget=10**10)
        w.__enter__()
        d = pycomm3.SLCDriver("10.0.0.1")
    elif kind == "cip":
        t = enip.Target(enip.IdentityDevice(lambda req, info: (0, [], b"\x01\x02")), keep_cip=False, keep_seqs=True)
        w = net.World(t, io_budget=10**10)
        w.__enter__()
        d = pycomm3.CIPDriver("10.0.0.1/bp/0")
    else:
        proj = projgen.build("P2", 0, reduced=True)
        if extra:
            extra(proj)
        ctl = logix.LogixController(proj, "v32")
        t = enip.Target(ctl, enip.Policy(large_fo="refuse08"), keep_cip=False, keep_seqs=True)  # 500-byte connection: cheap fragmentation
        w = net.World(t, io_budget=10**10)
        w.__enter__()
        d = pycomm3.LogixDriver("10.0.0.1")
    r = call(d.open)
    return t, w, d, r


def operations(d, kind, t=None):
    if kind == "cip":
        return {"generic": lambda: d.generic_message(service=0x0E, class_code=0x99, instance=1, attribute=1)}
    if kind == "slc":
        dev = t.device if t is not None else None

        def quiet(f):
            # the library prints a summary of the directory to stdout
            import contextlib
            import io

            with contextlib.redirect_stdout(io.StringIO()):
                return f()

        def datalog(n):
            dev.datalog[2] = [b"rec%02d,1,2,3" % i for i in range(n + 1)]
            return d.get_datalog_queue(n, 2)
        return {"slc_read": lambda: d.read("N7:3"), "slc_write": lambda: d.write(("N7:3", 5)),
                # the file directory (system file 0) is read in chunks of 0x50 bytes: 200 bytes = three chunks after the type and size requests
                "slc_filedir": lambda: quiet(d.get_file_directory), "slc_proctype": lambda: d.get_processor_type(),
                # n records and the queue-clearing read behind them
                "slc_datalog1": lambda: datalog(1), "slc_datalog4": lambda: datalog(4)}
    big = [(i * 7) % 3000 for i in range(2100)]
    many = ["plain", "plain2", "padded1", "str1", "s20", "plain3", "bools1.b1", "arrs1.sa{5}", "inner1.x", "timer1", "hid1", "mid1.count"] * 6
    return {
        "read1": lambda: d.read("plain"),
        "read2": lambda: d.read("plain", "plain2"),
        "readmany": lambda: d.read(*many),
        "readfrag": lambda: d.read("big_int{2100}"),
        "write1": lambda: d.write("plain", 7),
        "write2": lambda: d.write(("plain", 7), ("plain2", 8)),
        "writefrag": lambda: d.write("big_int{2100}", big),
        # transfers of exactly two fragments: whatever the last fragment does to the counter shows on the very next message
        "readfrag2": lambda: d.read("big_int{400}"),
        "writefrag2": lambda: d.write("big_int{400}", big[:400]),
        "bitwrite": lambda: d.write("plain.3", True),
        "bitmerge": lambda: d.write(("plain.3", True), ("plain.4", False), ("plain2.0", True), ("plain3", 5)),
        "upload": lambda: d.get_tag_list(),
        # the controller answers the 1st / 2nd fragment request with "partial transfer" and no value bytes
        "readfrag_stutter1": lambda: stutter(t, d, (1,)),
        "readfrag_stutter2": lambda: stutter(t, d, (2, 3)),
        "redundant_open": lambda: d.open(),  # open() on an already open driver re-initialises it over the same connection
    }


def stutter(t, d, at):
    ctl = t.device
    ctl.rfrag_count, ctl.empty_frag_at = 0, at
    try:
        return d.read("big_int{2100}")
    finally:
        ctl.empty_frag_at = ()


KIND_OF = {"generic": "cip", "slc_read": "slc", "slc_write": "slc", "slc_filedir": "slc", "slc_proctype": "slc", "slc_datalog1": "slc", "slc_datalog4": "slc"}
ALL_OPS = ["generic", "read1", "read2", "readmany", "readfrag", "readfrag2", "readfrag_stutter1", "readfrag_stutter2", "write1", "write2", "writefrag", "writefrag2", "bitwrite", "bitmerge", "upload", "redundant_open", "slc_read", "slc_write", "slc_filedir", "slc_proctype", "slc_datalog1", "slc_datalog4"]


def conn_of(t):
    return next(iter(t.connections.values()))


def advance(d, t, n, filler):
    """Move the counter forward by n counts (fast: draw from the generator; slow: 1-count messages)."""
    seq = getattr(d, "_sequence", None)
    if seq is not None and hasattr(seq, "__next__"):
        for _ in range(n):
            next(seq)
        return "generator"
    for _ in range(n):
        filler()
    return "messages"


def phase_of(conn, start_len):
    """Phase = the count the next message will carry, derived from the wire (last count + 1, wrapping)."""
    last = conn.seqs[-1]
    return 1 if last >= WRAP else last + 1


def sweep(rep, opname, phases, full):
    kind = KIND_OF.get(opname, "logix")
    t, w, d, r = make_world(kind)
    if r != ("ok", True):
        rep.violation("sequence/open-failed", f"{opname}: open() -> {r!r:.100}", {"op": opname, "phase": None})
        w.__exit__()
        return {}
    ops = operations(d, kind, t)
    op = ops[opname]
    filler = (lambda: d.generic_message(service=0x0E, class_code=0x99, instance=1)) if kind != "slc" else (lambda: d.read("N7:0"))
    # one message first so that the connection exists and the phase is observable
    call(filler)
    conn = conn_of(t)
    import bisect

    records = {}  # phase -> (first, last, count)
    visited = set()
    remaining = sorted(set(phases))  # phases still to visit, kept sorted for the "next wanted phase" query
    remset = set(remaining)
    n_ev = len(t.events)
    guard = 0
    pure = not hasattr(getattr(d, "_sequence", None), "__next__")
    while remset:
        guard += 1
        if guard > 3 * WRAP + 1000:
            rep.cap(f"{opname}: sweep guard")
            break
        p = phase_of(conn, 0)
        # for SLC operations the transaction id draws one count before the packet does: the op's own "phase" is what the wire shows
        if p not in remset:
            # move on: to the next wanted phase (fast path) or by one count
            i = bisect.bisect_left(remaining, p)
            while i < len(remaining) and remaining[i] not in remset:
                i += 1
            if i >= len(remaining):
                remaining = sorted(remset)
                i = 0
            nxt = remaining[i]
            dist = (nxt - p) % WRAP
            if dist == 0:
                dist = 1
            before = len(conn.seqs)
            how = advance(d, t, dist if not pure else 1, filler)
            if how == "generator":
                # the wire has not seen the drawn counts: send nothing, fake the phase by remembering the jump
                conn.seqs.append(((conn.seqs[-1] + dist - 1) % WRAP) + 1 if True else 0)
                conn.last_seq = None  # the detector compares wire messages only; the jump is not a message
            continue
        before = len(conn.seqs)
        w.io_budget = w.io_total + 20000  # per-operation I/O budget: an operation that never finishes is a violation, not a hang
        out = call(op)
        seqs = conn.seqs[before:]
        ok = out[0] == "ok"
        res = out[1] if ok else None
        good = ok and (all(bool(x) for x in res) if isinstance(res, list) else (res is not None and (bool(res) or opname == "upload")))
        visited.add(p)
        remset.discard(p)
        if out == ("hang",):
            rep.violation(f"sequence/operation-never-finishes/{opname}", f"{opname} at counter phase {p} did not finish within its I/O budget (counts so far {seqs[:6]})", {"op": opname, "phase": p})
            break
        if seqs:
            records[p] = (seqs[0], seqs[-1], len(seqs))
            for a, b in zip(seqs, seqs[1:]):
                if a == b:
                    rep.violation(f"sequence/repeated-within/{opname}", f"{opname} at counter phase {p}: consecutive messages carry count {a} (counts of the operation: {seqs[:8]})", {"op": opname, "phase": p})
        if not good:
            rep.violation(f"sequence/operation-failed/{opname}", f"{opname} at counter phase {p} failed: {out!r:.120} (counts {seqs[:6]})", {"op": opname, "phase": p})
        rep.case((opname, p), outcome=(f"ok:{opname}:{len(seqs)}-counts") if good else "failed", calls=max(1, len(seqs)))
    for tag, detail in t.events[n_ev:]:
        if tag.startswith("C17"):
            rep.violation(f"sequence/duplicate-detected/{opname}", f"{opname}: {detail}", {"op": opname, "phase": None})
            break
    rep.add("states", len(visited))
    rep.add(f"visited_{opname}", len(visited))
    call(d.close)
    w.__exit__()
    return records


_PRESET = {}


def preset_tags(pers):
    """Tag definitions of the reduced P2 project as an application would supply them to a driver created with init_tags=False."""
    import copy
    import pycomm3

    if pers not in _PRESET:
        proj = projgen.build("P2", 0, reduced=True)
        t = enip.Target(logix.LogixController(proj, pers), enip.Policy(large_fo="refuse08"), keep_cip=False)
        with net.World(t, io_budget=10**8):
            d = pycomm3.LogixDriver("10.0.0.1")
            call(d.open)
            _PRESET[pers] = copy.deepcopy(d._tags)
            call(d.close)
    return copy.deepcopy(_PRESET[pers])


FRESH_OPS = ["read1", "read2", "write1", "bitwrite", "readfrag", "writefrag", "readfrag2", "writefrag2", "generic", "upload",
             "upload_refused1", "upload_refused2", "readfrag_refused2", "writefrag_refused2", "read2_refused1", "write1_refused1",
             "read1_lost_reply", "write1_lost_reply", "readfrag_lost_reply2", "generic_lost_reply"]


def fresh_histories(rep, pers, init_tags, tier):
    """Histories that START at open(): the very first connected message may be what opens the connection (Micro800 without
    upload), and operations during which the controller refuses the n-th service (the library may re-send or give up)."""
    import itertools
    import pycomm3

    big = [(i * 7) % 3000 for i in range(2100)]

    def refusing(ctl, services, nth, thunk):
        st = {"n": 0}

        def hook(req, info):
            if req.service in services:
                st["n"] += 1
                if st["n"] == nth:
                    return (0x0C, [], b"")
            return None
        ctl.status_hook = hook
        try:
            return thunk()
        finally:
            ctl.status_hook = None

    def losing(w, nth_recv, thunk):
        """The reply to the n-th message of the operation never arrives (that receive times out); the connection stays usable."""
        w.arm({2 * nth_recv - 1: "reply_lost"})  # I/O alternates send, recv
        try:
            return thunk()
        finally:
            w.disarm()

    hists = [(a,) for a in FRESH_OPS] + list(itertools.product(FRESH_OPS, repeat=2))
    if tier == "thorough":
        sub = ["read1", "readfrag", "upload_refused1", "readfrag_refused2", "write1", "generic"]
        hists += list(itertools.product(sub, repeat=3))
    for hist in hists:
        proj = projgen.build("P2", 0, reduced=True)
        ctl = logix.LogixController(proj, pers)
        t = enip.Target(ctl, enip.Policy(large_fo="refuse08"), keep_cip=False, keep_seqs=True)
        with net.World(t, io_budget=10**8) as w:
            d = pycomm3.LogixDriver("10.0.0.1", init_tags=init_tags)
            if not init_tags:
                d._tags = preset_tags(pers)
            ops = {
                "read1": lambda: d.read("plain"), "read2": lambda: d.read("plain", "plain2"), "write1": lambda: d.write("plain", 7), "bitwrite": lambda: d.write("plain.3", True),
                "readfrag": lambda: d.read("big_int{2100}"), "writefrag": lambda: d.write("big_int{2100}", big),
                "readfrag2": lambda: d.read("big_int{400}"), "writefrag2": lambda: d.write("big_int{400}", big[:400]),
                "generic": lambda: d.generic_message(service=0x0E, class_code=0x99, instance=1, attribute=1), "upload": lambda: d.get_tag_list(),
                "upload_refused1": lambda: refusing(ctl, (0x55,), 1, d.get_tag_list), "upload_refused2": lambda: refusing(ctl, (0x55,), 2, d.get_tag_list),
                "readfrag_refused2": lambda: refusing(ctl, (0x52,), 2, lambda: d.read("big_int{2100}")), "writefrag_refused2": lambda: refusing(ctl, (0x53,), 2, lambda: d.write("big_int{2100}", big)),
                "read2_refused1": lambda: refusing(ctl, (0x4C,), 1, lambda: d.read("plain", "plain2")), "write1_refused1": lambda: refusing(ctl, (0x4D,), 1, lambda: d.write("plain", 7)),
                "read1_lost_reply": lambda: losing(w, 1, lambda: d.read("plain")), "write1_lost_reply": lambda: losing(w, 1, lambda: d.write("plain", 7)),
                "readfrag_lost_reply2": lambda: losing(w, 2, lambda: d.read("big_int{2100}")),
                "generic_lost_reply": lambda: losing(w, 1, lambda: d.generic_message(service=0x0E, class_code=0x99, instance=1, attribute=1)),
            }
            o = call(d.open)
            outs = []
            for nm in hist:
                w.io_budget = w.io_total + 40000
                outs.append(call(ops[nm])[0])
            dups = [e for e in t.events if e[0].startswith("C17")]
            per_conn = []
            for c in t.connections.values():
                per_conn += [(a, b) for a, b in zip(c.seqs, c.seqs[1:]) if a == b]
            bad = dups or per_conn or "hang" in outs
            rep.case(("fresh", pers, init_tags, hist), outcome="ok" if not bad else "duplicate", calls=len(hist) + 1)
            if bad:
                what = dups[0][1] if dups else (f"consecutive messages carry count {per_conn[0][0]}" if per_conn else "an operation did not finish")
                rep.violation(f"sequence/from-open/{hist[-1]}/{'upload' if init_tags else 'no-upload'}", f"{pers} init_tags={init_tags}: open() -> {o!r:.40}, then {list(hist)}: {what}",
                              {"op": "fresh", "phase": None, "pers": pers, "init_tags": init_tags, "hist": list(hist)})
            call(d.close)
    rep.sample({"fresh_histories": len(hists), "personality": pers, "init_tags": init_tags, "operations": FRESH_OPS})


def window():
    return list(range(WRAP - 63, WRAP + 1)) + list(range(1, 33))


def shards(tier, seed):
    big = BIG_CALLS if tier == "thorough" else BIG_CALLS[:2]
    return [("sweep", op) for op in ALL_OPS] + [("mixed", k) for k in ("logix", "slc")] + [("bigcall", op, k) for k in big for op in ("read", "write")] \
        + [("bigcall", op, k) for k in (WRAP, WRAP - 1) for op in ("read-packets", "write-packets")] \
        + [("between", k) for k in (WRAP - 1, WRAP)] + [("rawcounts",)] + [("threads", k) for k in ("logix", "cip", "slc")] + [("twodrivers", k) for k in (WRAP - 2, WRAP - 1, WRAP, WRAP + 1)] \
        + [("bigcall", "write-packets-bit", k) for k in (WRAP, WRAP - 1)] + [("bigcall", "write-packets-bit", WRAP, "debuglog"), ("bigcall", "write-packets", WRAP - 1, "debuglog"), ("bigcall", "read-packets", WRAP, "debuglog")] \
        + [("bigcall", f"fragwrap-{pers}", k) for pers in ("m800", "v32") for k in (WRAP - 2, WRAP - 1, WRAP, WRAP + 1)] + [("bigcall", "fragwrap-m800", k, "debuglog") for k in (WRAP - 2, WRAP - 1, WRAP, WRAP + 1)] + [("bigcall", "fragwrap-v32", k, "debuglog") for k in (WRAP - 1, WRAP)] \
        + [("fresh", pers, it) for pers in ("m800", "v32", "v20") for it in (False, True)] \
        + [("fresh", "v32", True, "debuglog"), ("sweep", "readfrag", "debuglog"), ("sweep", "writefrag", "debuglog"), ("sweep", "bitmerge", "debuglog")]


# calls whose number of requests sits at the counter's modulus: whatever a request "costs" in counts, k, k+1 or k-1 of them come around to the same count
BIG_CALLS = (WRAP - 1, WRAP - 2, WRAP, 2 * WRAP - 1)


def describe(tier, seed):
    return {"bounds": {"phases": "1..65535", "operations": ALL_OPS, "full_sweep": list(CHEAP) if tier != "thorough" else ALL_OPS, "wrap_window": "65472..65535, 1..32"}, "exhaustive": True}


def run_shard(shard, tier, seed):
    rep = Report()
    if shard[0] == "sweep":
        op = shard[1]
        full = tier == "thorough" or op in CHEAP
        phases = range(1, WRAP + 1) if full else window()
        recs = sweep(rep, op, phases, full)
        rep.extra["records"] = [(op, recs)]
        rep.sample({"operation": op, "phases_visited": len(recs), "counts_per_run": sorted({v[2] for v in recs.values()})[:5], "at_wrap": recs.get(WRAP)})
    elif shard[0] == "rawcounts":
        # packets the application numbers itself (the constructor takes an int as well as the connection's counter): the wire carries that number
        from pycomm3.packets import SendUnitDataRequestPacket

        t, w, d, r = make_world("cip")
        call(d.generic_message, service=0x0E, class_code=0x99, instance=1)
        conn = conn_of(t)
        for counts in ((700, 701, 702), (1, 2, 3), (65534, 65535, 1), (0x100, 0x1FF, 0xFFFF), (5, 0x8000, 6), (40000, 3, 40001)):
            n0, n_ev = len(conn.seqs), len(t.events)
            outs = []
            for cnt in counts:
                pkt = SendUnitDataRequestPacket(cnt)
                pkt.add(b"\x0e\x03\x20\x99\x24\x01\x30\x01")
                outs.append(call(d.send, pkt)[0])
            seqs = conn.seqs[n0:]
            flagged = [e for e in t.events[n_ev:] if e[0].startswith("C17")]
            ok = tuple(seqs) == counts and not flagged and all(o == "ok" for o in outs)
            rep.case(("rawcounts", counts), outcome="ok" if ok else "bad", calls=3)
            if not ok:
                rep.violation("sequence/explicit-counts", f"three packets created with the explicit counts {counts!r}: the wire carried {seqs!r}, target flagged {flagged[:1]!r} ({outs!r})", {"op": "rawcounts", "phase": None})
        call(d.close)
        w.__exit__()
    elif shard[0] == "twodrivers":
        # two driver objects in one process, each with its own connection (to two targets): what one sends between two messages of the other
        # is no part of the other connection's history
        import pycomm3

        k = shard[1]
        worlds = []
        tA = enip.Target(enip.IdentityDevice(lambda req, info: (0, [], b"\x01\x02")), keep_cip=False, keep_seqs=True)
        tB = enip.Target(enip.IdentityDevice(lambda req, info: (0, [], b"\x03\x04")), keep_cip=False, keep_seqs=True)
        w = net.World({"10.0.0.1": tA, "10.0.0.2": tB} if False else tA, io_budget=10**10)
        w.__enter__()
        a = pycomm3.CIPDriver("10.0.0.1/bp/0")
        b = pycomm3.CIPDriver("10.0.0.1/bp/1")  # a second session and connection of its own at the same target
        call(a.open)
        call(b.open)
        msg = dict(service=0x0E, class_code=0x99, instance=1, attribute=1)
        call(a.generic_message, **msg)
        call(b.generic_message, **msg)
        conns = list(tA.connections.values())
        ca = conns[0]
        for rnd in range(2):
            n_ev = len(tA.events)
            n0 = len(ca.seqs)
            for _ in range(k):
                b.generic_message(**msg)
            out = call(a.generic_message, **msg)
            seqs = ca.seqs[n0 - 1:]
            flagged = [e for e in tA.events[n_ev:] if e[0].startswith("C17")]
            ok = out[0] == "ok" and bool(out[1]) and len(seqs) == 2 and seqs[0] != seqs[1] and not flagged
            rep.case(("twodrivers", k, rnd), outcome="ok" if ok else "bad", calls=k + 1)
            if not ok:
                rep.violation("sequence/two-drivers/duplicate", f"{k} connected messages of another driver object (own session and connection) between two messages of this one: counts on this connection {seqs!r}, target flagged {flagged[:1]!r}, result {out!r:.60}",
                              {"op": "twodrivers", "phase": None, "k": k})
        call(a.close)
        call(b.close)
        w.__exit__()
        rep.sample({"two_drivers": k})
    elif shard[0] == "threads":
        # one driver, one connection, used from several threads strictly one after the other (every thread is joined or idle before the next
        # step): the connection has ONE history, whoever sends
        import queue
        import threading

        kind = shard[1]
        t, w, d, r = make_world(kind)
        ops = operations(d, kind, t)
        names = [n for n in ops if n in CHEAP or n in ("bitmerge", "readfrag2", "slc_proctype")]
        call(ops[names[0]])
        conn = conn_of(t)

        def fresh_thread(fn):
            box = []
            th = threading.Thread(target=lambda: box.append(call(fn)))
            th.start()
            th.join()
            return box[0] if box else ("foreign", "thread", "no result")

        jobs, results = queue.Queue(), queue.Queue()

        def worker():
            while True:
                fn = jobs.get()
                if fn is None:
                    return
                results.put(call(fn))
        pool = [threading.Thread(target=worker, daemon=True) for _ in range(2)]
        for th in pool[:1]:
            th.start()

        def pooled(fn):
            jobs.put(fn)
            return results.get()
        n_ev, n0, steps = len(t.events), len(conn.seqs), 0
        runners = (("main", call), ("new-thread", fresh_thread), ("main", call), ("worker-thread", pooled), ("new-thread", fresh_thread), ("worker-thread", pooled))
        for a in names:
            for b in names:
                for i, (who, run) in enumerate(runners):
                    nm = a if i % 2 == 0 else b
                    w.io_budget = w.io_total + 20000
                    before = len(conn.seqs)
                    out = run(ops[nm])
                    steps += 1
                    seqs = conn.seqs[max(before - 1, 0):]
                    dup = next((j for j, (x, y) in enumerate(zip(seqs, seqs[1:])) if x == y), None)
                    ok = out[0] == "ok" and dup is None
                    rep.case(("threads", kind, a, b, i), outcome=f"ok:{who}" if ok else "bad", calls=max(1, len(seqs) - 1))
                    if not ok:
                        rep.violation(f"sequence/threads/{'duplicate' if dup is not None else 'failed'}/{who}", f"{kind}: step {steps} ({nm} from the {who}): " + (f"count {seqs[dup]} sent twice in a row (counts {seqs[:6]})" if dup is not None else f"{out!r:.100}"),
                                      {"op": "threads", "phase": None, "kind": kind})
        jobs.put(None)
        for tag, detail in t.events[n_ev:]:
            if tag.startswith("C17"):
                rep.violation("sequence/threads/duplicate-detected", f"{kind}: {detail}", {"op": "threads", "phase": None, "kind": kind})
                break
        rep.sample({"threads": kind, "steps": steps, "operations": names})
        call(d.close)
        w.__exit__()
    elif shard[0] == "between":
        # k unconnected messages (which carry no sequence count) between two connected ones: they must not move the counter round to where it was
        k = shard[1]
        t, w, d, r = make_world("cip")
        w.io_budget = 10**9
        kinds = (dict(connected=False, unconnected_send=False, route_path=False), dict(connected=False, unconnected_send=True, route_path=True))
        for kw in kinds:
            call(d.generic_message, service=0x0E, class_code=0x99, instance=1)
            conn = conn_of(t)
            n0, n_ev = len(conn.seqs), len(t.events)
            for _ in range(k):
                d.generic_message(service=0x0E, class_code=0x99, instance=1, **kw)
            out = call(d.generic_message, service=0x0E, class_code=0x99, instance=1)
            seqs = conn.seqs[n0 - 1:]
            flagged = [e for e in t.events[n_ev:] if e[0].startswith("C17")]
            ok = out[0] == "ok" and bool(out[1]) and len(seqs) == 2 and seqs[0] != seqs[1] and not flagged
            rep.case(("between", k, kw["unconnected_send"]), outcome="ok" if ok else "bad", calls=k + 2)
            if not ok:
                rep.violation("sequence/unconnected-between/duplicate", f"{k} unconnected messages ({'Unconnected Send' if kw['unconnected_send'] else 'UCMM'}) between two connected ones: counts on the connection {seqs!r}, target flagged {flagged[:1]!r}, result {out!r:.60}",
                              {"op": "between", "phase": None, "k": k})
        call(d.close)
        w.__exit__()
    elif shard[0] == "fresh":
        fresh_histories(rep, shard[1], shard[2], tier)
    elif shard[0] == "bigcall" and shard[1].startswith("fragwrap"):
        # ONE read of k fragments (k = the counter's modulus and its neighbours; the controller hands out one byte per fragment) between
        # single-packet requests of the same call: the continuation requests are created while the call is being sent, the other packets
        # of the call before that
        import pycomm3

        _, op, k = shard
        pers = op.split("-")[1]
        proj = projgen.build("P2", 0, reduced=True)
        proj.tag("wrap_sint", "SINT", (65535,), instance_id=998)
        proj.tag("wrap_int", "INT", (32768,), instance_id=999)
        ctl = logix.LogixController(proj, pers)
        t = enip.Target(ctl, enip.Policy(large_fo="refuse08"), keep_cip=False, keep_seqs=True)
        w = net.World(t, io_budget=10**10)
        w.__enter__()
        d = pycomm3.LogixDriver("10.0.0.1")
        call(d.open)
        call(d.read, "plain")
        conn = conn_of(t)
        text = f"wrap_sint{{{k}}}" if k <= 65535 else f"wrap_int{{{k // 2}}}"
        for start in (30, WRAP - 5):
            seq = d._sequence
            for _ in range((start - 1 - conn.seqs[-1]) % WRAP):
                next(seq)
            call(d.read, "plain")
            n0, n_ev = len(conn.seqs), len(t.events)
            ctl.svc_log.clear()
            ctl.force_rfrag = 1
            w.io_budget = w.io_total + 40 * k
            out = call(d.read, "plain", text, "plain2", "plain3.2")
            ctl.force_rfrag = None
            nfr = sum(1 for x in ctl.svc_log if x[0] == "readfrag")
            seqs = conn.seqs[n0 - 1:]
            dup = next((i for i, (a, b) in enumerate(zip(seqs, seqs[1:])) if a == b), None)
            flagged = [e for e in t.events[n_ev:] if e[0].startswith("C17")]
            ok = out[0] == "ok" and isinstance(out[1], list) and all(out[1]) and dup is None and not flagged and nfr == k
            rep.case(("bigcall", op, k, start), outcome="ok" if ok else "bad", calls=len(seqs) - 1)
            if not ok:
                what = f"message #{dup + 1} of the call repeats the count {seqs[dup]} of the message before it" if dup is not None else (flagged[0][1] if flagged else f"{nfr} fragments (wanted {k}), result {out!r:.80}")
                rep.violation(f"sequence/big-call/{op}/{'duplicate' if dup is not None or flagged else 'failed'}", f"{op}: one read of {k} fragments inside a call of four requests, counter at {seqs[0]} before the call: {what}", {"op": f"bigcall-{op}", "phase": start, "k": k})
        rep.sample({"big_call": op, "fragments": k, "request": text})
        call(d.close)
        w.__exit__()
    elif shard[0] == "bigcall":
        _, op, k = shard
        t, w, d, r = make_world("logix")
        call(d.read, "plain")
        conn = conn_of(t)
        for start in ((30, WRAP - 5) if tier != "thorough" else (30, WRAP - 5, 1, WRAP)):
            seq = d._sequence
            for _ in range((start - 1 - conn.seqs[-1]) % WRAP):
                next(seq)
            call(d.read, "plain")
            n0 = len(conn.seqs)
            n_ev = len(t.events)
            w.io_budget = w.io_total + 40 * k
            if op == "read":
                out = call(d.read, *(["plain"] * k))
            elif op == "write":
                out = call(d.write, *([("plain", 7)] * k))
            else:
                # k requests that each fill a packet of their own, and one fragmented transfer in front of / behind them:
                # k whole packets lie between the moment the fragmented request is built and the moment it is sent
                front = start in (30, 1)
                if op == "read-packets":
                    reqs = ["big_int{230}"] * k
                    reqs = ["big_int{2100}"] + reqs if front else reqs + ["big_int{2100}"]
                    out = call(d.read, *reqs)
                elif op == "write-packets-bit":
                    # ... and a bit write (its own read-modify-write packet, sent after everything else of the call) instead of the fragmented one
                    one = ("big_int{230}", [5] * 230)
                    reqs = [("plain.3", True)] + [one] * k if front else [one] * k + [("plain.3", True)]
                    out = call(d.write, *reqs)
                else:
                    one, big = ("big_int{230}", [5] * 230), ("big_int{2100}", [6] * 2100)
                    reqs = [one] * k
                    reqs = [big] + reqs if front else reqs + [big]
                    out = call(d.write, *reqs)
                k_res = k + 1
            seqs = conn.seqs[n0 - 1:]
            dup = next((i for i, (a, b) in enumerate(zip(seqs, seqs[1:])) if a == b), None)
            flagged = [e for e in t.events[n_ev:] if e[0].startswith("C17")]
            n_res = k + 1 if "-packets" in op else k
            ok = out[0] == "ok" and isinstance(out[1], list) and len(out[1]) == n_res and all(out[1]) and dup is None and not flagged
            rep.case(("bigcall", op, k, start), outcome="ok" if ok else "bad", calls=len(seqs) - 1)
            if not ok:
                what = f"message #{dup + 1} of the call repeats the count {seqs[dup]} of the message before it" if dup is not None else (flagged[0][1] if flagged else f"result {out!r:.80}")
                rep.violation(f"sequence/big-call/{op}/{'duplicate' if dup is not None or flagged else 'failed'}", f"{op} of {k} requests in one call, counter at {seqs[0]} before the call: {what}", {"op": f"bigcall-{op}", "phase": start, "k": k})
        rep.sample({"big_call": op, "requests": k, "messages": len(conn.seqs)})
        call(d.close)
        w.__exit__()
    else:
        kind = shard[1]
        t, w, d, r = make_world(kind)
        ops = operations(d, kind, t)
        names = list(ops)
        call(ops[names[0]])
        conn = conn_of(t)
        seq = getattr(d, "_sequence", None)
        # start the mixed history shortly before the wrap, cross it, and keep going for every ordered pair twice
        if hasattr(seq, "__next__"):
            for _ in range((WRAP - 200 - conn.seqs[-1]) % WRAP):
                next(seq)
            conn.last_seq = None
        n_ev = len(t.events)
        laps = 6 if tier != "thorough" else 40
        steps = 0
        for lap in range(laps):
            for a in names:
                for b in names:
                    for nm in (a, b):
                        if nm in ("upload", "readmany", "redundant_open") and lap % 3:
                            continue
                        w.io_budget = w.io_total + 20000
                        out = call(ops[nm])
                        steps += 1
                        if out == ("hang",):
                            rep.violation(f"sequence/operation-never-finishes/{nm}", f"mixed history step {steps}: {nm} did not finish within its I/O budget", {"op": nm, "phase": None})
                            call(d.close)
                            w.__exit__()
                            return rep
                        if out[0] != "ok":
                            rep.violation(f"sequence/operation-failed/{nm}", f"mixed history step {steps}: {nm} -> {out!r:.100}", {"op": nm, "phase": None})
            if hasattr(seq, "__next__") and lap % 2:
                for _ in range((WRAP - 150 - conn.seqs[-1]) % WRAP):
                    next(seq)
                conn.last_seq = None
        for tag, detail in t.events[n_ev:]:
            if tag.startswith("C17"):
                rep.violation("sequence/duplicate-detected/mixed-history", f"{kind} mixed history: {detail}", {"op": "mixed", "phase": None})
                break
        rep.case(("mixed", kind), outcome="ok", calls=steps)
        rep.sample({"mixed_history": kind, "operations_run": steps, "messages": conn.messages})
        call(d.close)
        w.__exit__()
    return rep


def finalize(report, tier, seed):
    """Composition over ordered pairs of operations from the per-phase records."""
    recs = dict(report.extra.pop("records", []))
    pairs = 0
    for a, ra in recs.items():
        for b, rb in recs.items():
            if KIND_OF.get(a, "logix") != KIND_OF.get(b, "logix"):
                continue  # different driver objects: different connections
            for p, (first, last, n) in ra.items():
                q = 1 if last >= WRAP else last + 1  # phase label = the next count drawn (by the packet, or by the PCCC transaction id)
                nb = rb.get(q)
                if nb is None:
                    continue
                pairs += 1
                if nb[0] == last:
                    report.violation(f"sequence/repeated-across/{a}->{b}", f"{a} at phase {p} ends with count {last}; {b} run next starts with count {nb[0]}", {"op": a, "phase": p})
    report.extra["composed_pairs_checked"] = pairs
    report.transitions += pairs


def replay(r):
    rep = Report()
    if r["op"] == "mixed":
        rep2 = run_shard(("mixed", "logix"), "quick", 0)
        rep.merge(rep2)
    elif r["op"] == "rawcounts":
        rep.merge(run_shard(("rawcounts",), "quick", 0))
    elif r["op"] == "twodrivers":
        rep.merge(run_shard(("twodrivers", r["k"]), "quick", 0))
    elif r["op"] == "threads":
        rep.merge(run_shard(("threads", r["kind"]), "quick", 0))
    elif r["op"] == "between":
        rep.merge(run_shard(("between", r["k"]), "quick", 0))
    elif r["op"] == "fresh":
        rep.merge(run_shard(("fresh", r["pers"], r["init_tags"]), "quick", 0))
    elif r["op"].startswith("bigcall-"):
        rep.merge(run_shard(("bigcall", r["op"][8:], r["k"]), "quick", 0))
    else:
        ph = [r["phase"]] if r.get("phase") else window()
        sweep(rep, r["op"], ph, False)
    for s, vs in rep.violations.items():
        print("  violates:", s, "::", vs[0].msg[:300])
    return not rep.violations

"""C03 — one result per request, in request order, with failures isolated (E3 over request lists)."""
import itertools

from vmc.core.report import Report
from vmc.ref.projects import fill_image
from . import logixreq as Q
from .c01 import open_world
from .harness import call

META = {
    "rule": "on project P2 (+ access-controlled tags), personalities {v20, v32, m800} x connection {4000, 500}: an alphabet of 8 valid reads of "
    "every packet kind (small atomic, bit, BOOL range, structure, string, fragmented, nested string member, member of an array "
    "element) and 10 invalid reads of every failure kind (unknown tag, unknown member, malformed {x}, index out of range, count "
    "beyond the array, .bit on a structure, no-access tag, and requests sent under another wire name - bit of an element / BOOL-array element / range - that the controller refuses), "
    "likewise 9 valid / 14 invalid writes (plus unencodable value, too-short list, a value without a length for several elements, misaligned BOOL range, read-only tag): ALL lists of length 1, 2 and 3 over each alphabet, all lists of length 4 over a "
    "6-request sub-alphabet, and straddling lists (n medium requests with an invalid, a fragmented or a duplicate request inserted "
    "at every position, n chosen to span 1-3 multi-service packets). Refused services (deviation bound 1 on the controller's answers): in single, "
    "3-request and 6-request calls the n-th tag service - every n, including members of multi-service packets and every fragment - is refused with each of 9 "
    "statuses (with/without extended words, codes inside and outside the library's tables): no exception, at least one request fails, only requests on the refused tag fail, "
    "all other values/memory as in the un-refused call. Oracle: no exception escapes; one Tag iff n = 1 else a list of "
    "n; names in request order; truthiness = reference verdict of each request; Tag truthiness contract; isolation as a differential: "
    "outcome i in the list == outcome of request i alone from the same memory. distinct = distinct (world, operation, list).",
    "explanation": "exhaustive enumeration of all request lists up to length 3 (4 over a sub-alphabet) with a differential isolation oracle",
    "assumptions": [
        "a failed request may echo its name with or without the {n} suffix",
        "valid writes of one list address distinct tags (the order of conflicting writes within a call is not specified); duplicates repeat the same value",
        "memory effects of *failed* write requests are not constrained",
    ],
}
PERS = ("v20", "v32", "m800")
CONNS = (4000, 500)

READ_VALID = ["plain", "plain2.3", "arrs1.ba[1]{40}", "padded1", "str1", "big_int{2100}", "inner1.name", "padded_ary[1].d1",
              # bit numbers sharing digits with the digits a tag name ends in, a {n} count doing the same
              "plain2.2", "plain3.13", "s20_ary{2}"]
READ_INVALID = ["nope", "padded1.nope", "plain{x}", "padded_ary[9]", "padded_ary{4}", "padded1.3", "none_tag",
                # requests that parse locally into a different wire name (bit of an element, BOOL-array element / range) and are refused by the controller
                "big_int[2100].3", "arrs1.ba[200]", "arrs1.ba[40]{40}",
                # indexes far beyond the end, in every width an element number can take on the wire
                "big_int[70000]", "padded_ary[16777216].d1"]


def write_alphabet(proj):
    pv = Q.struct_value(proj.find("padded1").typ, 1)
    shared = ["a", "bb", "ccc", "dddd", "eeeee"]  # ONE list object offered to two requests that need 2 and 3 of its values; a tuple longer than needed
    valid = [
        ("s20_ary{2}", shared), ("str_ary{3}", shared), ("padded_ary{2}", (pv, pv, pv)), ("plain2.2", True), ("plain3.13", False),
        ("plain", 5), ("plain2.3", True), ("arrs1.ba[32]{32}", [bool(i % 3) for i in range(32)]), ("padded1", pv), ("str1", "hello"),
        ("big_int{2100}", [(i * 7) % 30000 for i in range(2100)]), ("inner1.name", "abc"), ("padded_ary[1].d1", 7), ("bools1.b3", True),
        # bits are taken by truthiness: a masked flag (4, 0x80) sets the bit, it is not shifted into the word
        ("plain2.6", 4), ("plain3.1", 0x80),
    ]
    invalid = [
        ("nope", 1), ("padded1.nope", 1), ("plain3{x}", 1), ("padded_ary[9]", pv), ("padded_ary{4}", [pv] * 4), ("padded1.3", True),
        ("plain3", "abc"), ("s20_ary{3}", ["a", "b"]), ("arrs1.ba[5]{32}", [True] * 32), ("ro_tag", 1),
        # several elements requested, a value without a length given; a bit of an element beyond the array
        ("big_int{3}", 7), ("arrs1.ba[32]{32}", True), ("s20_ary{2}", None), ("big_int[2100].3", True), ("big_int[65536]", 1),
    ]
    return valid, invalid


def memory_problem(proj, pre, reqs, res):
    """After a write call: every successful request's data is in memory, nothing else changed (tags addressed only by failed requests are unconstrained)."""
    want = {k: bytearray(v) for k, v in pre.items()}
    care = {k: bytearray(b"\xff" * len(v)) for k, v in pre.items()}
    touched = set()
    ok_tags = set()
    for (text, value), g in zip(reqs, res):
        try:
            touched.add(Q.parse_request(proj, text).tag.full_name)
        except Q.Bad:
            pass
        e = Q.write_expect(proj, text, value)
        if bool(g) and e.ok:
            img, mask = e.after(want[e.tag.full_name])
            want[e.tag.full_name][:] = img
            for j, m in enumerate(mask):
                care[e.tag.full_name][j] &= m
            ok_tags.add(e.tag.full_name)
    for t in proj.all_tags():
        nm = t.full_name
        if nm in touched and nm not in ok_tags:
            continue  # addressed only by failed requests: not constrained
        if any((x ^ y) & m for x, y, m in zip(t.data, want[nm], care[nm])):
            return f"{nm} differs from the reference after the call"
    return None


REFUSALS = [(0x00, []), (0x04, []), (0x05, [0x0002]), (0xFF, [0x2199]), (0xFF, []), (0x1F, []), (0x01, [0x9999]), (0xFF, [0x2105]), (0x10, []), (0x0F, [])]
TAG_SERVICES = (0x4C, 0x52, 0x4D, 0x53, 0x4E)


def run_refusals(rep, cfg, proj, ctl, d, op, alone, statuses=REFUSALS):
    """Deviation bound 1 on the controller's answers: in every call of a family of request lists, the n-th tag service
    (for every n, also inside multi-service packets and fragment sequences) is refused with each status of `statuses`."""
    alpha, want = alone["alpha"], alone["want"]
    valid = [i for i, okv in enumerate(want) if okv]
    name_of = lambda i: alpha[i] if op == "read" else alpha[i][0]
    base_tag = {}
    for i in valid:
        base_tag[i] = Q.parse_request(proj, name_of(i)).tag.full_name
    lists = [(i,) for i in valid]
    a, b = valid[0], valid[3]
    for i in valid:
        if len({base_tag[a], base_tag[i], base_tag[b]}) == 3:
            lists += [(a, i, b), (i, a, b)]
    frag = 5  # the fragmented request of both alphabets
    lists.append(tuple(x for x in valid if base_tag[x] not in (base_tag[valid[1]],))[:6])
    state = {"n": 0, "target": -1, "forced": None, "hit": None}

    def hook(req, info):
        if req.service not in TAG_SERVICES:
            return None
        state["n"] += 1
        if state["n"] != state["target"]:
            return None
        if state["forced"][0] == 0 and req.service != 0x52:
            return None  # the "ends early" answer below is only meaningful for a fragmented read
        try:
            state["hit"] = ctl.resolve(req.path).tag.full_name
        except Exception:  # noqa
            state["hit"] = "?"
        st, ext = state["forced"]
        if st == 0:
            # the controller ends a fragmented read early: "success, no more data" after the type code and one byte (the tag shrank on-line):
            # what has arrived cannot be the value, the request fails WITH an error text, its neighbours are untouched
            return (0, [], b"\xc3\x00\x01")
        return (st, list(ext), b"")

    def run(lst):
        reqs = [alpha[i] for i in lst]
        state.update(n=0, hit=None)
        if op == "read":
            return reqs, call(d.read, *reqs)
        return reqs, call(d.write, *(reqs if len(reqs) > 1 else reqs[0]))

    ctl.status_hook = hook
    try:
        for lst in lists:
            pre = proj.snapshot()
            state.update(target=-1)
            reqs, out0 = run(lst)
            proj.restore(pre)
            nserv = state["n"]
            base = out0[1] if out0[0] == "ok" else None
            if base is not None and not isinstance(base, list):
                base = [base]
            if base is None or len(base) != len(lst) or not all(base):
                continue  # the un-refused call is judged by the other shards
            for nth in range(1, nserv + 1):
                for forced in statuses:
                    state.update(target=nth, forced=forced)
                    reqs, out = run(lst)
                    probs = []
                    if out[0] != "ok":
                        probs.append(("exception", f"{op} raised {out!r:.120}"))
                    else:
                        res = out[1] if isinstance(out[1], list) else [out[1]]
                        if len(res) != len(lst):
                            probs.append(("shape", f"{len(lst)} requests but {len(res)} results"))
                        else:
                            bad = [c for c in map(tag_ok, res) if c]
                            if bad:
                                probs.append(("truthiness-contract", bad[0]))
                            failed = [k for k, g in enumerate(res) if not g]
                            hit = state["hit"]
                            if hit is None:
                                pass  # the call ended before reaching the n-th service (an earlier refusal cannot happen here)
                            elif not failed:
                                probs.append(("refusal-swallowed", f"the controller refused service #{nth} (on {hit}) with status {forced[0]:#04x} {forced[1]} but every request reports success"))
                            else:
                                for k in failed:
                                    if base_tag[lst[k]] != hit:
                                        probs.append(("isolation", f"#{k} {name_of(lst[k])!r} failed ({str(res[k].error)[:50]!r}) although the refused service #{nth} addressed {hit}"))
                                        break
                            if op == "read":
                                for k, g in enumerate(res):
                                    if g and not Q.same_value(g.value, base[k].value):
                                        probs.append(("isolation", f"#{k} {name_of(lst[k])!r}: value differs from the un-refused call"))
                                        break
                            else:
                                m = memory_problem(proj, pre, reqs, res)
                                if m:
                                    probs.append(("memory", m))
                    proj.restore(pre)
                    rep.case((cfg, op, "refuse", lst, nth, forced[0], tuple(forced[1])), outcome="refused-ok" if not probs else probs[0][0])
                    for clause, detail in probs[:2]:
                        pos = "first" if nth == 1 else "last" if nth == nserv else "middle"
                        rep.violation(f"{op}/refused-service/{clause}/{pos}", f"{cfg}: {op} of {[name_of(i) for i in lst]!r:.160}, service #{nth}/{nserv} refused with {forced[0]:#04x} {[hex(x) for x in forced[1]]}: {detail}",
                                      {"cfg": list(cfg), "op": op, "list": list(lst), "kind": "refusals", "nth": nth, "forced": [forced[0], list(forced[1])]})
    finally:
        ctl.status_hook = None


def tag_ok(g):
    """Truthiness contract: truthy <=> value is not None and error is None; falsy -> non-empty error."""
    try:
        b = bool(g)
    except Exception:  # noqa
        return "bool() raised"
    if b != (g.value is not None and g.error is None):
        return f"truthiness {b} but value={g.value!r:.40} error={g.error!r:.40}"
    if not b and not (isinstance(g.error, str) and g.error):
        return f"falsy Tag without an error text: {g!r:.80}"
    return None


def name_ok(g, text, ok):
    if ok:
        return g.tag == Q.tag_echo(text)
    return g.tag in (text, Q.tag_echo(text))


def shards(tier, seed):
    sh = []
    for pers in PERS:
        for conn in CONNS:
            for op in ("read", "write"):
                for part in range(4):
                    sh.append(("lists", pers, conn, op, part))
                sh.append(("straddle", pers, conn, op, 0))
                sh.append(("refusals", pers, conn, op, 0))
    sh += [("wide", pers, 4000, op, 0) for pers in ("v20", "v32") for op in ("read", "write")]
    sh += [("packed", pers, conn, "both", 0) for pers in ("v20", "v32") for conn in CONNS]
    sh += [("lists", "v20", 500, "read", 1, "debuglog"), ("lists", "v32", 4000, "write", 2, "debuglog"), ("refusals", "m800", 500, "write", 0, "debuglog")]
    sh += [("lists", "v20", 500, "write", 0, "python-O"), ("lists", "v32", 4000, "read", 3, "python-O")]
    return sh


def describe(tier, seed):
    return {"bounds": {"read_alphabet": len(READ_VALID) + len(READ_INVALID), "write_alphabet": 28, "list_lengths": "1,2,3 (all), 4 (6-request sub-alphabet)", "personalities": PERS, "connection_sizes": CONNS}, "exhaustive": True}


def run_list(rep, cfg, proj, ctl, d, op, lst, alone, sigk):
    """lst: list of alphabet indices; alone[i] = outcome of request i alone."""
    alpha = alone["alpha"]
    reqs = [alpha[i] for i in lst]
    pre = None
    if op == "read":
        out = call(d.read, *reqs)
    else:
        pre = proj.snapshot()
        out = call(d.write, *(reqs if len(reqs) > 1 else reqs[0]))
    probs = []
    n = len(reqs)
    if out[0] != "ok":
        probs.append(("exception", f"{op} raised {out!r:.120}"))
    else:
        res = out[1]
        if n == 1:
            if isinstance(res, list):
                probs.append(("shape", "a list was returned for a single request"))
                res = res[:1]
            else:
                res = [res]
        elif not isinstance(res, list) or len(res) != n:
            probs.append(("shape", f"{n} requests but result {res!r:.80}"))
            res = None
        if res is not None and not probs:
            for k, (i, g) in enumerate(zip(lst, res)):
                text = reqs[k] if op == "read" else reqs[k][0]
                a = alone["res"][i]
                c = tag_ok(g)
                if c:
                    probs.append(("truthiness-contract", f"#{k} {text!r}: {c}"))
                    continue
                if bool(g) != alone["want"][i]:
                    probs.append(("verdict", f"#{k} {text!r}: {'succeeded' if bool(g) else 'failed (' + str(g.error)[:60] + ')'} but the reference says it {'succeeds' if alone['want'][i] else 'cannot succeed'}"))
                    continue
                if not name_ok(g, text, bool(g)):
                    probs.append(("name-order", f"#{k} carries tag {g.tag!r}, request was {text!r}"))
                if bool(g) != bool(a):
                    probs.append(("isolation", f"#{k} {text!r}: {'ok' if bool(g) else 'failed'} in the list, {'ok' if bool(a) else 'failed'} alone"))
                elif bool(g) and op == "read" and not Q.same_value(g.value, a.value):
                    probs.append(("isolation", f"#{k} {text!r}: value in the list differs from the value read alone"))
                elif bool(g) and g.type != a.type:
                    probs.append(("isolation", f"#{k} {text!r}: type {g.type!r} in the list, {a.type!r} alone"))
            if op == "write":
                m = memory_problem(proj, pre, reqs, res)
                if m:
                    probs.append(("memory", m))
    if pre is not None:
        proj.restore(pre)
    rep.case((cfg, op, tuple(lst)), outcome=("ok:" + "".join("T" if alone["want"][i] else "F" for i in lst)[:8]) if not probs else probs[0][0])
    for clause, detail in probs[:3]:
        kinds = "+".join(sorted({("valid" if alone["want"][i] else "invalid") for i in lst}))
        rep.violation(f"{op}/{sigk}/{clause}/{kinds}", f"{cfg}: {op} of {[r if op == 'read' else r[0] for r in reqs]!r:.200}: {detail}",
                      {"cfg": list(cfg), "op": op, "list": list(lst), "kind": sigk})
    return not probs


def prepare(proj, ctl, d, op):
    if op == "read":
        alpha = READ_VALID + READ_INVALID
        want = [Q.read_expect(proj, x)[0] == "ok" for x in alpha]
    else:
        v, i = write_alphabet(proj)
        alpha = v + i
        want = [Q.write_expect(proj, x, val).ok for x, val in alpha]
    res = []
    for a in alpha:
        if op == "read":
            o = call(d.read, a)
        else:
            pre = proj.snapshot()
            o = call(d.write, a[0], a[1])
            proj.restore(pre)
        res.append(o[1] if o[0] == "ok" else None)
    return {"alpha": alpha, "want": want, "res": res}


def wide_shard(rep, pers, op):
    """One call whose single Multiple Service Packet carries more than 255 services (short names, small values, 4000-byte connection)."""
    import pycomm3
    from vmc.ref import enip, net, logix, projgen

    proj = projgen.Project("P6w")
    names = [a + b for a in "abcdefghijklmnop" for b in "abcdefghijklmnopqrstuvwxyz"][:400]
    for i, nm in enumerate(names):
        proj.tag(nm, "SINT", instance_id=10 + i)
    fill_image(proj, 1)
    ctl = logix.LogixController(proj, pers)
    t = enip.Target(ctl, enip.Policy(), keep_cip=True)
    with net.World(t, io_budget=10**8):
        d = pycomm3.LogixDriver("10.0.0.1")
        o = call(d.open)
        for n in (255, 256, 257, 300, 340):
            sel = names[:n]
            t.cip_log.clear()
            pre = proj.snapshot()
            out = call(d.read, *sel) if op == "read" else call(d.write, *[(x, (i % 100) + 1) for i, x in enumerate(sel)])
            packets = sum(1 for e in t.cip_log if e["service"] == 0x0A)
            probs = []
            if out[0] != "ok" or not isinstance(out[1], list) or len(out[1]) != n:
                probs.append(("shape", f"{str(out)[:100]}"))
            else:
                bad = [(i, g) for i, g in enumerate(out[1]) if not g or g.tag != sel[i] or (op == "read" and g.value != Q.read_expect(proj, sel[i])[1])]
                if bad:
                    probs.append(("verdict", f"{len(bad)} of {n} results wrong, first #{bad[0][0]} {sel[bad[0][0]]!r}: {bad[0][1]!r:.80}"))
                if op == "write":
                    wrong = [x for i, x in enumerate(sel) if proj.find(x).data[0] != (i % 100) + 1]
                    if wrong:
                        probs.append(("memory", f"{len(wrong)} of {n} tags do not hold the written value, first {wrong[0]!r}"))
            proj.restore(pre)
            rep.case(("wide", pers, op, n), outcome=f"ok:{packets}-packets" if not probs else probs[0][0])
            for clause, detail in probs[:2]:
                rep.violation(f"{op}/wide-packet/{clause}", f"{pers}: {op} of {n} one-byte tags in one call ({packets} multi-service packet(s), open {o!r:.30}): {detail}",
                              {"cfg": ["P6w", pers, 4000], "op": op, "list": [], "kind": "wide"})
        call(d.close)
    rep.sample({"wide_packet": pers, "op": op, "services_in_one_call": [255, 256, 257, 300, 340]})


def run_shard(shard, tier, seed):
    rep = Report()
    kind, pers, conn, op, part = shard
    if kind == "wide":
        wide_shard(rep, pers, op)
        return rep
    if kind == "packed":
        # request lists whose packed size hits every value around the connection size (C04's generator), judged for isolation:
        # a packet that should have been split must not take its valid neighbours down with it
        from . import c04

        sub = c04.run_shard(("mixed", conn, pers), tier, seed)
        rep.evaluations, rep.transitions, rep.cases, rep.nontrivial, rep.outcomes = sub.evaluations, sub.transitions, sub.cases, sub.nontrivial, sub.outcomes
        for sig, vs in sub.violations.items():
            if "request-failed" in sig or "neighbour-failed" in sig or "exception" in sig or "too-large" in sig:  # an over-long packet is refused as a whole by a real controller
                for v in vs:
                    rep.violation("packed-size/" + sig, v.msg, {"cfg": ["P5m", pers, conn], "op": "both", "list": [], "kind": "packed"})
                rep.viol_counts["packed-size/" + sig] = sub.viol_counts[sig]
        return rep
    cfg = ("P2", pers, conn)
    proj, ctl, t, w, d, r = open_world("P2", pers, conn, seed % 4, choices=(), reduced=True)
    if r != ("ok", True):
        rep.case((cfg, "open"), outcome="open-failed")
        rep.violation("lists/open-failed", f"{cfg}: open() -> {r!r:.120}", {"cfg": list(cfg), "op": op, "list": [], "kind": "open"})
        w.__exit__()
        return rep
    fill_image(proj, seed % 4)
    alone = prepare(proj, ctl, d, op)
    n = len(alone["alpha"])
    # the single requests themselves
    for i in range(n):
        if alone["res"][i] is None:
            rep.violation(f"{op}/single/exception/{'valid' if alone['want'][i] else 'invalid'}", f"{cfg}: {op} of {alone['alpha'][i]!r:.80} alone raised", {"cfg": list(cfg), "op": op, "list": [i], "kind": "single"})
    if any(x is None for x in alone["res"]):
        w.__exit__()
        return rep
    if kind == "lists":
        lists = []
        if part == 0:
            lists += [(i,) for i in range(n)] + [(i, j) for i in range(n) for j in range(n)]
            sub = [alone["alpha"].index(x) if x in alone["alpha"] else 0 for x in (READ_VALID[0], READ_VALID[2], READ_VALID[5])] if op == "read" else [5, 7, 10]
            sub = sub + [n - 1, n - 2, len([x for x in alone["want"] if x])]  # 3 valid (small, BOOL range, fragmented) + 3 invalid
            lists += list(itertools.product(sub, repeat=4))
        triples = [(i, j, k) for i in range(n) for j in range(n) for k in range(n)]
        lists += triples[part::4]
        for lst in lists:
            run_list(rep, cfg, proj, ctl, d, op, lst, alone, f"len{len(lst)}")
        rep.sample({"config": cfg, "op": op, "lists": len(lists), "example": [alone["alpha"][i] if op == "read" else alone["alpha"][i][0] for i in lists[len(lists) // 2]]})
    elif kind == "refusals":
        run_refusals(rep, cfg, proj, ctl, d, op, alone)
        rep.sample({"config": cfg, "op": op, "refusal_statuses": [(hex(a), [hex(x) for x in b]) for a, b in REFUSALS]})
    else:
        # straddling lists: n medium requests, one special inserted at every position
        med_i = 2 if op == "read" else 2  # BOOL range (read) / aligned BOOL range write: medium size, idempotent
        if op == "read":
            alone["alpha"].append("s20_ary{4}")
            alone["want"].append(True)
            alone["res"].append(call(d.read, "s20_ary{4}")[1])
        else:
            val = ["a" * 20, "b" * 19, "", "d"]
            alone["alpha"].append(("s20_ary{4}", val))
            alone["want"].append(True)
            pre = proj.snapshot()
            alone["res"].append(call(d.write, "s20_ary{4}", val)[1])
            proj.restore(pre)
        med = len(alone["alpha"]) - 1
        per_packet = 4 if conn == 500 else 35
        frag_i = next(i for i, x in enumerate(alone["alpha"]) if (x if op == "read" else x[0]) == "big_int{2100}")
        specials = [len([x for x in alone["want"][:-1] if x]), frag_i, med]  # first invalid (unknown tag), fragmented, duplicate
        for npk in (1, 2, 3):
            count = per_packet * npk - 1
            for sp in specials:
                for pos in range(count + 1):
                    if conn == 4000 and pos % 3 and pos not in (count, count - 1):
                        continue  # 4000: every third position plus both ends (thorough: all)
                    lst = [med] * count
                    lst.insert(pos, sp)
                    run_list(rep, cfg, proj, ctl, d, op, tuple(lst), alone, f"straddle{npk}")
        rep.sample({"config": cfg, "op": op, "straddling": True, "medium_request": "s20_ary{4}"})
    call(d.close)
    w.__exit__()
    return rep


def replay(r):
    cfg = r["cfg"]
    proj, ctl, t, w, d, o = open_world(cfg[0], cfg[1], cfg[2], 0, choices=(), reduced=True)
    fill_image(proj, 0)
    alone = prepare(proj, ctl, d, r["op"])
    if r["kind"] in ("wide", "packed"):
        w.__exit__()
        rep = Report()
        for sh in shards("quick", 0):
            if sh[0] == r["kind"] and sh[1] == cfg[1]:
                rep.merge(run_shard(sh, "quick", 0))
        for s_, vs in rep.violations.items():
            print("  violates:", s_, "::", vs[0].msg[:300])
        return not rep.violations
    if r["kind"] == "refusals":
        rep = Report()
        run_refusals(rep, tuple(cfg), proj, ctl, d, r["op"], alone)
        hit = [v for vs in rep.violations.values() for v in vs]
        for v in hit[:3]:
            print("  violates:", v.sig, "::", v.msg[:400])
        w.__exit__()
        return not hit
    if r["kind"].startswith("straddle"):
        print("(straddling case: re-run the check shard to reproduce)")
    rep = Report()
    lst = [i for i in r["list"] if i < len(alone["alpha"])]
    ok = run_list(rep, tuple(cfg), proj, ctl, d, r["op"], tuple(lst), alone, r["kind"])
    for s, vs in rep.violations.items():
        print("  violates:", s, "::", vs[0].msg[:400])
    w.__exit__()
    return ok

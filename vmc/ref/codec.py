"""Independent reference codec for CIP / Logix data (imports nothing from pycomm3).

Types are described by plain tuples ("descriptors"):

  ('int', nbytes, signed)            little-endian two's complement
  ('bool',)                          0x00 / 0xFF (any non-zero decodes True)
  ('real', 4|8)                      IEEE-754 binary32 / binary64, little-endian
  ('str', prefix_bytes, char_bytes)  length prefix counts *characters*; 1-byte chars Latin-1, 2-byte UTF-16-LE
  ('stringn',)                       UINT char size, UINT char count, chars (1: ASCII, 2: UTF-16-LE, 4: UTF-32-LE)
  ('stringi',)                       value = list of (text, strtype_code, lang3, charset)
  ('bits', nbytes)                   list of bools, least significant bit first
  ('bytes', n)                       n raw bytes (-1: rest of the buffer)
  ('fixstr', capacity, prefix_bytes) Logix string: LEN prefix + DATA padded to capacity
  ('array', n | ('prefix', nbytes) | None, elem)
  ('struct', ((name|None, desc), ...))      value = dict of named members
  ('datetime',)                      (UDINT time of day, UINT date) = 6 bytes
  ('ipv4',)                          dotted quad, network byte order
  ('structtag', size, ((name, desc, offset),...), ((bitname, offset, bit),...), hidden_names)

Encoders use int.to_bytes and explicit IEEE field assembly rather than struct format
strings, so a symmetric mistake in the library cannot cancel against the reference.
"""
import math


class RefError(Exception):
    """The value/bytes are outside the reference domain (library must raise DataError)."""


class RefEmpty(RefError):
    """No bytes remain where a value should start."""


# ---------------------------------------------------------------- IEEE-754 by hand
def _float_to_bits(x, ebits, mbits):
    """Round-to-nearest-even conversion of a Python float to an IEEE interchange format."""
    bias = (1 << (ebits - 1)) - 1
    emax = (1 << ebits) - 1
    if x != x:
        sign = 1 if math.copysign(1.0, x) < 0 else 0
        return (sign << (ebits + mbits)) | (emax << mbits) | (1 << (mbits - 1))
    sign = 1 if math.copysign(1.0, x) < 0 else 0
    ax = abs(x)
    if ax == math.inf:
        return (sign << (ebits + mbits)) | (emax << mbits)
    if ax == 0.0:
        return sign << (ebits + mbits)
    m, e = math.frexp(ax)  # ax = m * 2**e, 0.5 <= m < 1
    e -= 1  # ax = (2m) * 2**e, 1 <= 2m < 2
    # exact integer significand: ax = n / 2**k exactly (floats are dyadic rationals)
    num, den = ax.as_integer_ratio()
    if e < 1 - bias:  # subnormal in the target format
        shift = mbits + bias - 1  # value = frac * 2**(1-bias-mbits)
        n_, d_ = (num << shift, den) if shift >= 0 else (num, den << -shift)
        q, r = divmod(n_, d_)
        if 2 * r > d_ or (2 * r == d_ and q & 1):
            q += 1
        return (sign << (ebits + mbits)) | q  # q may carry into exponent 1: correct encoding
    # normal
    shift = mbits - e
    n_, d_ = (num << shift, den) if shift >= 0 else (num, den << -shift)
    q, r = divmod(n_, d_)
    if 2 * r > d_ or (2 * r == d_ and q & 1):
        q += 1
    if q >> (mbits + 1):  # rounding carried
        q >>= 1
        e += 1
    be = e + bias
    if be >= emax:
        raise RefError("float overflow")
    return (sign << (ebits + mbits)) | (be << mbits) | (q & ((1 << mbits) - 1))


def _bits_to_float(b, ebits, mbits):
    bias = (1 << (ebits - 1)) - 1
    emax = (1 << ebits) - 1
    sign = -1.0 if b >> (ebits + mbits) else 1.0
    e = (b >> mbits) & emax
    f = b & ((1 << mbits) - 1)
    if e == emax:
        if f:
            return math.copysign(math.nan, sign)
        return sign * math.inf
    if e == 0:
        return sign * math.ldexp(f, 1 - bias - mbits)
    return sign * math.ldexp((1 << mbits) | f, e - bias - mbits)


def f32_bits(x):
    return _float_to_bits(float(x), 8, 23)


def f64_bits(x):
    return _float_to_bits(float(x), 11, 52)


def same_float(a, b):
    """Bit-level equality except that all NaNs of one sign class are one value."""
    if a != a or b != b:
        return a != a and b != b
    return a == b and math.copysign(1.0, a) == math.copysign(1.0, b)


# ---------------------------------------------------------------- helpers
def _int_enc(v, n, signed):
    if isinstance(v, bool):
        v = int(v)
    if not isinstance(v, int):
        raise RefError(f"not an int: {v!r}")
    try:
        return v.to_bytes(n, "little", signed=signed)
    except OverflowError:
        raise RefError(f"{v} out of range for {n}-byte {'signed' if signed else 'unsigned'}")


def _take(buf, pos, n, what="value"):
    if n == 0:
        return b"", pos
    if pos >= len(buf):
        raise RefEmpty(f"no bytes for {what}")
    if pos + n > len(buf):
        raise RefError(f"{len(buf) - pos} byte(s) left, {n} needed for {what}")
    return buf[pos : pos + n], pos + n


_CHAR = {1: "latin-1", 2: "utf-16-le", 4: "utf-32-le"}
STR_CODES = {0xD0: ("str", 2, 1), 0xD5: ("str", 2, 2), 0xD9: ("stringn",), 0xDA: ("str", 1, 1)}


def _chars(text, width, ascii_only=False):
    if not isinstance(text, str):
        raise RefError(f"not a str: {text!r}")
    out = bytearray()
    for ch in text:
        cp = ord(ch)
        if width == 1:
            if cp > (0x7F if ascii_only else 0xFF):
                raise RefError("character does not fit one byte")
            out.append(cp)
        elif width == 2:
            if cp > 0xFFFF or 0xD800 <= cp <= 0xDFFF:
                raise RefError("character does not fit one 16-bit unit")
            out += cp.to_bytes(2, "little")
        else:
            if cp > 0x10FFFF or 0xD800 <= cp <= 0xDFFF:
                raise RefError("not a scalar value")
            out += cp.to_bytes(4, "little")
    return bytes(out)


def _unchars(data, width):
    if width == 1:
        return data.decode("latin-1")
    out = []
    for i in range(0, len(data), width):
        cp = int.from_bytes(data[i : i + width], "little")
        if cp > 0x10FFFF or 0xD800 <= cp <= 0xDFFF:
            raise RefError("invalid code unit")
        out.append(chr(cp))
    return "".join(out)


# ---------------------------------------------------------------- encode
def enc(d, v):
    k = d[0]
    if k == "int":
        return _int_enc(v, d[1], d[2])
    if k == "bool":
        return b"\xff" if v else b"\x00"
    if k == "real":
        if isinstance(v, bool) or not isinstance(v, (int, float)):
            raise RefError(f"not a number: {v!r}")
        try:
            fv = float(v)
        except OverflowError:
            raise RefError("int too large for float")
        bits = f32_bits(fv) if d[1] == 4 else f64_bits(fv)
        return bits.to_bytes(d[1], "little")
    if k == "str":
        data = _chars(v, d[2])
        return _int_enc(len(v), d[1], False) + data
    if k == "stringn":
        text, width = v
        if width not in (1, 2, 4):
            raise RefError("unsupported character size")
        data = _chars(text, width, ascii_only=True)
        return _int_enc(width, 2, False) + _int_enc(len(text), 2, False) + data
    if k == "stringi":
        out = _int_enc(len(v), 1, False)
        for text, code, lang, charset in v:
            if code not in STR_CODES or not isinstance(lang, str) or len(lang) != 3 or not lang.isascii():
                raise RefError("bad STRINGI element")
            sd = STR_CODES[code]
            body = enc(sd, (text, 1) if sd[0] == "stringn" else text)
            out += lang.encode("ascii") + bytes([code]) + _int_enc(charset, 2, False) + body
        return out
    if k == "bits":
        n = d[1] * 8
        try:
            vals = list(v)
        except TypeError:
            raise RefError("not a sequence")
        if len(vals) != n:
            raise RefError(f"bit string needs exactly {n} bits, got {len(vals)}")
        x = 0
        for i, b in enumerate(vals):
            if b:
                x |= 1 << i
        return x.to_bytes(d[1], "little")
    if k == "bytes":
        if not isinstance(v, (bytes, bytearray)):
            raise RefError("not bytes")
        if d[1] == -1:
            return bytes(v)
        if len(v) < d[1]:
            raise RefError("too few bytes")
        return bytes(v[: d[1]])
    if k == "fixstr":
        data = _chars(v, 1)
        if len(data) > d[1]:
            raise RefError("string longer than capacity")
        return _int_enc(len(data), d[2], False) + data + bytes(d[1] - len(data))
    if k == "array":
        ln, elem = d[1], d[2]
        try:
            vals = list(v)
        except TypeError:
            raise RefError("not a sequence")
        if elem[0] == "bits":
            per = elem[1] * 8
            if isinstance(ln, int):
                if len(vals) < ln * per:
                    raise RefError("too few bits")
                vals = vals[: ln * per]
            if len(vals) % per:
                raise RefError("bit count not a multiple of the element width")
            groups = [vals[i : i + per] for i in range(0, len(vals), per)]
            body = b"".join(enc(elem, g) for g in groups)
            if isinstance(ln, tuple):
                return _int_enc(len(groups), ln[1], False) + body
            return body
        if isinstance(ln, int):
            if len(vals) < ln:
                raise RefError("too few elements")
            vals = vals[:ln]
            return b"".join(enc(elem, x) for x in vals)
        body = b"".join(enc(elem, x) for x in vals)
        if ln is None:
            return body
        return _int_enc(len(vals), ln[1], False) + body
    if k == "struct":
        if isinstance(v, dict):
            vals = []
            for name, md in d[1]:
                if name not in v:
                    raise RefError(f"missing member {name!r}")
                vals.append(v[name])
        else:
            try:
                vals = list(v)
            except TypeError:
                raise RefError("not a sequence")
            if len(vals) != len(d[1]):
                raise RefError("wrong number of members")
        return b"".join(enc(md, x) for (name, md), x in zip(d[1], vals))
    if k == "datetime":
        t, dte = v
        return _int_enc(t, 4, False) + _int_enc(dte, 2, False)
    if k == "ipv4":
        if not isinstance(v, str):
            raise RefError("not a str")
        parts = v.split(".")
        if len(parts) != 4 or not all(p.isdigit() and p.isascii() and (p == "0" or not p.startswith("0")) and int(p) < 256 for p in parts):
            raise RefError("not a dotted quad")
        return bytes(int(p) for p in parts)
    if k == "structtag":
        size, mems, bits, hidden = d[1], d[2], d[3], d[4]
        buf = bytearray(size)
        care = bytearray(size)
        if not isinstance(v, dict):
            raise RefError("structure value must be a dict")
        for name, md, off in mems:
            if name in hidden:
                continue
            if name not in v:
                raise RefError(f"missing member {name!r}")
            e = enc(md, v[name])
            buf[off : off + len(e)] = e
            care[off : off + len(e)] = b"\xff" * len(e)
        for name, off, bit in bits:
            if name in hidden:
                continue
            if name not in v:
                raise RefError(f"missing member {name!r}")
            if v[name]:
                buf[off] |= 1 << bit
            else:
                buf[off] &= ~(1 << bit) & 0xFF  # a BOOL member's value IS its host bit, also over a visible host member
            care[off] |= 1 << bit
        return bytes(buf)
    raise AssertionError(d)


# ---------------------------------------------------------------- decode
def dec(d, buf, pos=0):
    """-> (value, new position)."""
    k = d[0]
    if k == "int":
        b, pos = _take(buf, pos, d[1], "int")
        return int.from_bytes(b, "little", signed=d[2]), pos
    if k == "bool":
        b, pos = _take(buf, pos, 1, "bool")
        return b != b"\x00", pos
    if k == "real":
        b, pos = _take(buf, pos, d[1], "real")
        bits = int.from_bytes(b, "little")
        return (_bits_to_float(bits, 8, 23) if d[1] == 4 else _bits_to_float(bits, 11, 52)), pos
    if k == "str":
        n, pos = dec(("int", d[1], False), buf, pos)
        if n == 0:
            return "", pos
        b, pos = _take(buf, pos, n * d[2], "string data")
        return _unchars(b, d[2]), pos
    if k == "stringn":
        width, pos = dec(("int", 2, False), buf, pos)
        count, pos = dec(("int", 2, False), buf, pos)
        if width not in (1, 2, 4):
            raise RefError("unsupported character size")
        b, pos = _take(buf, pos, width * count, "string data")
        if width == 1 and any(x > 0x7F for x in b):
            raise RefError("non-ASCII one-byte character")
        return _unchars(b, width), pos
    if k == "stringi":
        n, pos = dec(("int", 1, False), buf, pos)
        strings, langs, sets = [], [], []
        for _ in range(n):
            lang, pos = _take(buf, pos, 3, "language")
            code, pos = _take(buf, pos, 1, "string type")
            if code[0] not in STR_CODES:
                raise RefError("unknown string type")
            cs, pos = dec(("int", 2, False), buf, pos)
            s, pos = dec(STR_CODES[code[0]], buf, pos)
            strings.append(s)
            langs.append(lang.decode("latin-1"))
            sets.append(cs)
        return (strings, langs, sets), pos
    if k == "bits":
        b, pos = _take(buf, pos, d[1], "bit string")
        x = int.from_bytes(b, "little")
        return [bool(x >> i & 1) for i in range(d[1] * 8)], pos
    if k == "bytes":
        if d[1] == -1:
            if pos >= len(buf):
                raise RefEmpty("no bytes")
            return bytes(buf[pos:]), len(buf)
        b, pos = _take(buf, pos, d[1], "bytes")
        return bytes(b), pos
    if k == "fixstr":
        n, pos = dec(("int", d[2], False), buf, pos)
        b, pos = _take(buf, pos, d[1], "string data")
        return b[:n].decode("latin-1"), pos
    if k == "array":
        ln, elem = d[1], d[2]
        out = []
        if ln is None:
            while pos < len(buf):
                x, pos = dec(elem, buf, pos)
                out.append(x)
        else:
            if isinstance(ln, tuple):
                n, pos = dec(("int", ln[1], False), buf, pos)
            else:
                n = ln
            for _ in range(n):
                x, pos = dec(elem, buf, pos)
                out.append(x)
        if elem[0] == "bits":
            out = [b for g in out for b in g]
        return out, pos
    if k == "struct":
        vals = {}
        for name, md in d[1]:
            x, pos = dec(md, buf, pos)
            if name:
                vals[name] = x
        return vals, pos
    if k == "datetime":
        t, pos = dec(("int", 4, False), buf, pos)
        dte, pos = dec(("int", 2, False), buf, pos)
        return (t, dte), pos
    if k == "ipv4":
        b, pos = _take(buf, pos, 4, "ip")
        return ".".join(str(x) for x in b), pos
    if k == "structtag":
        size, mems, bits, hidden = d[1], d[2], d[3], d[4]
        raw, end = _take(buf, pos, size, "structure")
        vals = {}
        for name, md, off in mems:
            x, _ = dec(md, raw, off)
            if name not in hidden:
                vals[name] = x
        for name, off, bit in bits:
            if name not in hidden:
                vals[name] = bool(raw[off] >> bit & 1)
        return vals, end
    raise AssertionError(d)


def dec_all(d, buf):
    v, pos = dec(d, buf, 0)
    return v


def care_mask(d):
    """For ('structtag'): bytes mask (0xFF = byte determined by the visible members)."""
    size, mems, bits, hidden = d[1], d[2], d[3], d[4]
    care = bytearray(size)
    for name, md, off in mems:
        if name in hidden:
            continue
        n = size_of(md)
        if md[0] == "structtag":
            care[off : off + n] = care_mask(md)
        elif md[0] == "array" and md[2][0] == "structtag":
            sub = care_mask(md[2])
            for i in range(md[1]):
                care[off + i * len(sub) : off + (i + 1) * len(sub)] = sub
        elif md[0] == "fixstr":
            care[off : off + md[2]] = b"\xff" * md[2]  # LEN only; DATA remainder is don't-care
        else:
            care[off : off + n] = b"\xff" * n
    for name, off, bit in bits:
        if name not in hidden:
            care[off] |= 1 << bit
    return bytes(care)


def size_of(d):
    k = d[0]
    if k in ("int", "real", "bits"):
        return d[1]
    if k == "bool":
        return 1
    if k == "bytes":
        return d[1]
    if k == "fixstr":
        return d[1] + d[2]
    if k == "array":
        return d[1] * size_of(d[2])
    if k == "struct":
        return sum(size_of(m) for _, m in d[1])
    if k == "datetime":
        return 6
    if k == "ipv4":
        return 4
    if k == "structtag":
        return d[1]
    raise RefError("no fixed size")

"""Reference Logix controller (device for vmc.ref.enip.Target).

Implements, from 1756-PM020 "Logix 5000 Data Access": the Symbol object (0x6B, Get_Instance_Attribute_List),
the Template object (0x6C, Get_Attribute_List + Read Template), the tag services Read Tag (0x4C), Read Tag
Fragmented (0x52), Write Tag (0x4D), Write Tag Fragmented (0x53), Read-Modify-Write (0x4E) and the Multiple
Service Packet (0x0A), plus the Identity object, the program-name object (0x64) and the wall-clock object (0x8B).

Strict: every service-data length must be exactly what the service defines.  Everything the controller may
decide freely is a choice point of the world's ctx (page breaks, fragment lengths, BOOL byte).
Imports nothing from pycomm3.
"""
import struct

from . import wire as W
from .projects import ATOMS, CODE2ATOM, BASE_TAG_BIT, TypeDef, type_size

OK, PARTIAL = 0x00, 0x06
E_PATH_SYNTAX, E_PATH_UNKNOWN, E_SERVICE, E_ATTR_LIST, E_DENIED = 0x04, 0x05, 0x08, 0x0A, 0x0F
E_TOO_LITTLE, E_TOO_MUCH, E_GENERAL, E_REPLY_TOO_LARGE = 0x13, 0x15, 0xFF, 0x11
X_BEYOND_END, X_TYPE_MISMATCH = 0x2105, 0x2107


class CipError(Exception):
    def __init__(self, status, ext=()):
        self.status, self.ext = status, list(ext)


class Resolved:
    __slots__ = ("tag", "typ", "offset", "extent", "bit", "indexed")

    def __init__(self, tag, typ, offset, extent, bit=None, indexed=False):
        self.tag, self.typ, self.offset, self.extent, self.bit, self.indexed = tag, typ, offset, extent, bit, indexed


class Personality:
    def __init__(self, name, major, minor=1, product_name="1756-L83E/B", micro800=False):
        self.name, self.major, self.minor, self.product_name, self.micro800 = name, major, minor, product_name, micro800

    @property
    def external_access_attr(self):
        return self.major >= 18

    @property
    def instance_addressing(self):
        return self.major >= 21 and not self.micro800


PERSONALITIES = {
    "v17": Personality("v17", 17, 3, "1756-L61/B LOGIX5561"),
    "v18": Personality("v18", 18, 2, "1756-L63/B LOGIX5563"),  # first firmware with the external-access attribute
    "v20": Personality("v20", 20, 19, "1769-L23E-QBFC1 LOGIX5323E-QBFC1"),
    "v21": Personality("v21", 21, 3, "1756-L73/B LOGIX5573"),  # first firmware with symbol-instance addressing
    "v32": Personality("v32", 32, 11, "1756-L83E/B"),
    "m800": Personality("m800", 12, 11, "2080-LC50-48QWB", micro800=True),
}


class LogixController:
    def __init__(self, project, personality="v32", ctx=None, choices=()):
        self.project = project
        self.pers = PERSONALITIES[personality] if isinstance(personality, str) else personality
        self.ctx = ctx
        self.choices = set(choices)  # which families of choice points are open: 'page', 'tfrag', 'rfrag', 'boolbyte'
        self.target = None
        self.svc_log = []  # (service name, tag full name, details...) for every tag service executed
        self.clock_us = 1_500_000_000_000_000
        self.max_unconnected = 504
        self.status_hook = None  # callable(req, info) -> None | (status, ext words, data): status injection (C13)
        self.force_tfrag = 0  # >0: every template read returns at most this many bytes
        self.force_page = 0  # >0: every symbol page holds at most this many entries
        self.empty_frag_at = ()  # ordinals (1-based, see rfrag_count) of Read Tag Fragmented replies answered "partial" with no value bytes
        self.rfrag_count = 0

    def attach(self, target):
        self.target = target
        target.identity = dict(self.project.identity(), major=self.pers.major, minor=self.pers.minor, product_name=self.pers.product_name)

    def choose(self, family, label, n, default):
        if self.ctx is None or family not in self.choices or n <= 1:
            return default
        return self.ctx.choose(label, n, default)

    # ------------------------------------------------------------------ dispatch
    def handle(self, req, info):
        if self.status_hook is not None:
            forced = self.status_hook(req, info)
            if forced is not None:
                status, ext, data = forced
                return W.build_mr_reply(req.service, status, ext, data)
        try:
            data = self.dispatch(req, info)
            if isinstance(data, tuple):
                status, payload = data
                return W.build_mr_reply(req.service, status, [], payload)
            return W.build_mr_reply(req.service, OK, [], data)
        except CipError as e:
            return W.build_mr_reply(req.service, e.status, e.ext)

    def dispatch(self, req, info):
        p, svc = req.path, req.service
        budget = info["max_reply"] - 4  # reply header: service, reserved, status, ext size
        if svc == 0x0A:
            if p != [("class", 2), ("instance", 1)]:
                raise CipError(E_PATH_UNKNOWN)
            return self.multi_service(req, info, budget)
        if p[:1] == [("class", 1)]:
            if svc == 0x01:
                return W.identity_body(self.target.identity)
            raise CipError(E_SERVICE)
        if p[:1] == [("class", 0x64)]:
            if self.pers.micro800:
                raise CipError(E_PATH_UNKNOWN)
            if svc == 0x01:
                n = self.project.controller_name.encode()
                return struct.pack("<H", len(n)) + n
            raise CipError(E_SERVICE)
        if p[:1] == [("class", 0x8B)]:
            return self.wall_clock(req)
        if svc == 0x55:
            return self.symbols(req, budget)
        if p[:1] == [("class", 0x6C)]:
            return self.template(req, budget)
        if svc in (0x4C, 0x52, 0x4D, 0x53, 0x4E):
            return self.tag_service(req, budget)
        raise CipError(E_SERVICE)

    def wall_clock(self, req):
        if req.service == 0x03 and req.data == b"\x01\x00\x0b\x00":
            return struct.pack("<HHHQ", 1, 11, 0, self.clock_us)
        if req.service == 0x04:
            if len(req.data) < 12:
                raise CipError(E_TOO_LITTLE)
            if len(req.data) > 12:
                raise CipError(E_TOO_MUCH)
            if req.data[:4] != b"\x01\x00\x06\x00":
                raise CipError(E_ATTR_LIST)
            self.clock_us = struct.unpack_from("<Q", req.data, 4)[0]
            return struct.pack("<HHH", 1, 6, 0)
        raise CipError(E_SERVICE)

    # ------------------------------------------------------------------ multiple service packet
    def multi_service(self, req, info, budget):
        if self.pers.micro800:
            raise CipError(E_SERVICE)
        d = req.data
        if len(d) < 2:
            raise CipError(E_TOO_LITTLE)
        n = struct.unpack_from("<H", d, 0)[0]
        if n == 0 or len(d) < 2 + 2 * n:
            self.target.event("C03/multi-service-format", f"{n} services, {len(d)} data bytes")
            raise CipError(E_TOO_LITTLE)
        offs = [struct.unpack_from("<H", d, 2 + 2 * i)[0] for i in range(n)]
        if offs[0] != 2 + 2 * n or any(b <= a for a, b in zip(offs, offs[1:])) or offs[-1] >= len(d):
            self.target.event("C03/multi-service-format", f"offsets {offs} in {len(d)} data bytes")
            raise CipError(E_TOO_LITTLE)
        bounds = offs + [len(d)]
        replies = []
        used = 2 + 2 * n
        failed = False
        for i in range(n):
            emb = d[bounds[i] : bounds[i + 1]]
            try:
                ereq = W.parse_mr_request(emb)
            except Exception as e:  # noqa
                self.target.event("C09/request-path", f"multi-service member {i}: {e} in {emb[:40].hex()}")
                replies.append(W.build_mr_reply(emb[0] if emb else 0, E_PATH_SYNTAX))
                failed = True
                continue
            if self.target.keep_cip:
                self.target.cip_log.append({"transport": "multi", "service": ereq.service, "path": ereq.path, "raw_path": ereq.raw_path, "data": ereq.data, "route": None, "conn": info["conn"].o2t if info.get("conn") else None})
            if ereq.service not in (0x4C, 0x4D, 0x4E, 0x52, 0x53):
                replies.append(W.build_mr_reply(ereq.service, E_SERVICE))
                failed = True
                continue
            # each member gets the whole remaining packet; the sum is checked below (C04)
            r = self.handle(ereq, dict(info, max_reply=10**9))
            if r[2] != OK:
                failed = True
            replies.append(r)
            used += len(r)
        if used > budget:
            self.target.event("C04/reply-too-large", f"multiple service packet solicits a reply of {used + 4 + 2} bytes on a connection of {info['max_reply'] + 2}")
            raise CipError(E_REPLY_TOO_LARGE)
        out = struct.pack("<H", n)
        o = 2 + 2 * n
        for r in replies:
            out += struct.pack("<H", o)
            o += len(r)
        return (0x1E if failed else OK), out + b"".join(replies)

    # ------------------------------------------------------------------ symbol object
    def scope_of(self, p):
        """-> (symbol list, remaining path) for an optional leading Program: segment."""
        if p and p[0][0] == "symbol" and p[0][1].startswith("Program:"):
            name = p[0][1][len("Program:") :]
            if name not in self.project.programs:
                raise CipError(E_PATH_UNKNOWN)
            return self.project.programs[name], p[1:], name
        return self.project.symbols, p, None

    def symbols(self, req, budget):
        syms, p, prog = self.scope_of(req.path)
        if len(p) != 2 or p[0] != ("class", 0x6B) or p[1][0] != "instance":
            raise CipError(E_PATH_UNKNOWN)
        start = p[1][1]
        d = req.data
        if len(d) < 2:
            raise CipError(E_TOO_LITTLE)
        n = struct.unpack_from("<H", d, 0)[0]
        if len(d) != 2 + 2 * n:
            raise CipError(E_TOO_LITTLE if len(d) < 2 + 2 * n else E_TOO_MUCH)
        attrs = [struct.unpack_from("<H", d, 2 + 2 * i)[0] for i in range(n)]
        for a in attrs:
            if a not in (1, 2, 3, 5, 6, 7, 8, 10) or (a == 10 and not self.pers.external_access_attr):
                raise CipError(E_ATTR_LIST)
        entries = []
        for t in sorted(syms, key=lambda t: t.instance_id):
            if t.instance_id < start:
                continue
            e = struct.pack("<I", t.instance_id)
            for a in attrs:
                if a == 1:
                    nb = t.name.encode()
                    e += struct.pack("<H", len(nb)) + nb
                elif a == 2:
                    e += struct.pack("<H", t.symbol_type)
                elif a == 3:
                    e += struct.pack("<I", (0x10000 + 4 * t.instance_id) & 0xFFFFFFFF)
                elif a == 5:
                    e += struct.pack("<I", (0x20000 + 8 * t.instance_id) & 0xFFFFFFFF)
                elif a == 6:
                    e += struct.pack("<I", (0 if t.alias else BASE_TAG_BIT) | (t.instance_id & 0xFFFF))
                elif a == 7:
                    e += struct.pack("<H", t.nbytes & 0xFFFF)
                elif a == 8:
                    dims = list(t.dims) + [0, 0, 0]
                    e += struct.pack("<III", *dims[:3])
                elif a == 10:
                    e += bytes([t.access])
            entries.append(e)
        if not entries:
            return b""
        fit = 0
        size = 0
        for e in entries:
            if size + len(e) > budget:
                break
            size += len(e)
            fit += 1
        fit = max(fit, 1)
        # page break: default as many entries as fit, alternatives: fewer (at least one)
        if self.force_page:
            k = min(fit, self.force_page)
        else:
            k = self.choose("page", f"page@{prog or ''}:{start}", fit, fit - 1) + 1
        out = b"".join(entries[:k])
        return (PARTIAL if k < len(entries) else OK), out

    # ------------------------------------------------------------------ template object
    def template(self, req, budget):
        p = req.path
        if len(p) != 2 or p[1][0] != "instance":
            raise CipError(E_PATH_UNKNOWN)
        td = self.project.types.get(p[1][1])
        if td is None:
            raise CipError(E_PATH_UNKNOWN)
        if req.service == 0x03:
            d = req.data
            if len(d) < 2:
                raise CipError(E_TOO_LITTLE)
            n = struct.unpack_from("<H", d, 0)[0]
            if len(d) != 2 + 2 * n:
                raise CipError(E_TOO_LITTLE if len(d) < 2 + 2 * n else E_TOO_MUCH)
            out = struct.pack("<H", n)
            for i in range(n):
                a = struct.unpack_from("<H", d, 2 + 2 * i)[0]
                if a == 1:
                    out += struct.pack("<HHH", a, 0, td.handle)
                elif a == 2:
                    out += struct.pack("<HHH", a, 0, len(td.members))
                elif a == 4:
                    out += struct.pack("<HHI", a, 0, td.definition_words())
                elif a == 5:
                    out += struct.pack("<HHI", a, 0, td.size)
                else:
                    raise CipError(E_ATTR_LIST)
            return out
        if req.service == 0x4C:
            if len(req.data) != 6:
                raise CipError(E_TOO_LITTLE if len(req.data) < 6 else E_TOO_MUCH)
            off, cnt = struct.unpack("<IH", req.data)
            blob = td.definition()
            total = td.definition_words() * 4 - 21  # the image a client may ask for (zero padded)
            blob = blob.ljust(max(total, off + cnt), b"\x00")
            if off > len(blob):
                raise CipError(E_GENERAL, [X_BEYOND_END])
            want = min(cnt, budget)
            if want <= 0:
                return b""
            # fragment length: default everything that fits; alternatives: a cut at every byte *class* of the
            # definition (inside member info, on the info/name boundary, inside the template name, inside and
            # between member names, one byte before the end, a single byte)
            k = want
            if self.force_tfrag:
                k = min(want, self.force_tfrag)
            else:
                info_len = 8 * len(td.members)
                name_end = info_len + len(td.name) + (1 if td.first_member_is_name else 3)
                cuts = {1, 7, 8, 9, info_len - 1, info_len, info_len + 1, info_len + max(1, len(td.name) // 2), name_end - 1, name_end, name_end + 1, len(td.definition()) - 1, len(td.definition()), off + want - 1}
                pos = name_end
                for m in td.members[:3]:
                    pos += len(m.name) + 1
                    cuts |= {pos - 1, pos}
                alts = sorted(c - off for c in cuts if 0 < c - off < want)
                c = self.choose("tfrag", f"tfrag@{td.tid:#x}:{off}", len(alts) + 1, 0)
                if c:
                    k = alts[c - 1]
            chunk = blob[off : off + k]
            return (PARTIAL if k < cnt else OK), chunk
        raise CipError(E_SERVICE)

    # ------------------------------------------------------------------ tag addressing
    def resolve(self, path):
        syms, p, prog = self.scope_of(path)
        if not p:
            raise CipError(E_PATH_SYNTAX)
        if p[0][0] == "symbol":
            tag = next((t for t in syms if t.name == p[0][1] and t.kind in ("tag", "module")), None)
            rest = p[1:]
        elif p[0] == ("class", 0x6B) and len(p) >= 2 and p[1][0] == "instance":
            if not self.pers.instance_addressing:
                raise CipError(E_PATH_UNKNOWN)
            tag = next((t for t in syms if t.instance_id == p[1][1] and t.kind in ("tag", "module")), None)
            rest = p[2:]
        else:
            raise CipError(E_PATH_SYNTAX)
        if tag is None or tag.typ is None:
            raise CipError(E_PATH_UNKNOWN)
        typ, dims, off, extent, bit, indexed = tag.typ, tag.dims, 0, tag.elements if tag.dims else 1, None, False
        i = 0
        while i < len(rest):
            kind = rest[i][0]
            if kind == "member":
                idx = []
                while i < len(rest) and rest[i][0] == "member":
                    idx.append(rest[i][1])
                    i += 1
                if not dims or len(idx) != len(dims) or bit is not None:
                    raise CipError(E_PATH_UNKNOWN)
                flat = 0
                for ix, dm in zip(idx, dims):
                    if ix >= dm:
                        raise CipError(E_GENERAL, [X_BEYOND_END])
                    flat = flat * dm + ix
                total = 1
                for dm in dims:
                    total *= dm
                off += flat * type_size(typ)
                extent = total - flat
                dims = ()
                indexed = True
            elif kind == "symbol":
                if not isinstance(typ, TypeDef) or dims or bit is not None:
                    raise CipError(E_PATH_UNKNOWN)
                m = typ.member(rest[i][1])
                if m is None:
                    raise CipError(E_PATH_UNKNOWN)
                off += m.offset
                if m.is_bit:
                    typ, bit, dims, extent = "BOOL", m.bit, (), 1
                else:
                    typ = m.typ
                    dims = (m.dim,) if m.dim else ()
                    extent = m.dim if m.dim else 1
                indexed = False
                i += 1
            else:
                raise CipError(E_PATH_SYNTAX)
        return Resolved(tag, typ, off, extent, bit, indexed)

    def type_field(self, typ):
        if isinstance(typ, TypeDef):
            return b"\xa0\x02" + struct.pack("<H", typ.handle)
        return struct.pack("<H", ATOMS[typ][0])

    def tag_service(self, req, budget):
        r = self.resolve(req.path)
        svc, d = req.service, req.data
        name = r.tag.full_name
        esz = type_size(r.typ)
        tf = self.type_field(r.typ)
        if svc in (0x4C, 0x52):
            need = 2 if svc == 0x4C else 6
            if len(d) != need:
                raise CipError(E_TOO_LITTLE if len(d) < need else E_TOO_MUCH)
            cnt = struct.unpack_from("<H", d, 0)[0]
            off = struct.unpack_from("<I", d, 2)[0] if svc == 0x52 else 0
            if r.tag.access == 3:
                raise CipError(E_DENIED)
            if cnt == 0 or cnt > r.extent:
                raise CipError(E_GENERAL, [X_BEYOND_END])
            if r.bit is not None:
                if cnt != 1 or off:
                    raise CipError(E_GENERAL, [X_BEYOND_END])
                v = r.tag.data[r.offset] >> r.bit & 1
                one = b"\xff" if self.choose("boolbyte", "boolbyte", 2, 0) == 0 else b"\x01"
                self.svc_log.append(("read", name, r.offset, 1, 0, 1))
                return tf + (one if v else b"\x00")
            total = cnt * esz
            if off > total or (off == total and total):
                raise CipError(E_GENERAL, [X_BEYOND_END])
            full = bytes(r.tag.data[r.offset : r.offset + total])
            if r.typ == "BOOL" and r.bit is None:
                one = b"\xff" if self.choose("boolbyte", "boolbyte", 2, 0) == 0 else b"\x01"
                full = b"".join(one if b else b"\x00" for b in full)
            cap = budget - len(tf)
            rem = total - off
            fit = min(rem, max(cap, 0))
            if svc == 0x52 and fit > 1:
                # fragment length: default all that fits; alternatives: 1 byte, one element, half, one byte less
                alts = sorted({1, esz, fit // 2, fit - 1} - {0, fit})
                alts = [a for a in alts if 0 < a < fit]
                c = self.choose("rfrag", f"rfrag@{name}:{off}", len(alts) + 1, 0)
                if c:
                    fit = alts[c - 1]
                if getattr(self, "force_rfrag", None):
                    fit = min(fit, self.force_rfrag)  # a controller that hands out its data in small pieces
            if svc == 0x52:
                self.rfrag_count += 1
                if self.rfrag_count in self.empty_frag_at and rem:
                    fit = 0  # legal if unusual: "more data follows" with only the type code; the client asks again from the same offset
            chunk = full[off : off + fit]
            self.svc_log.append(("read" if svc == 0x4C else "readfrag", name, r.offset, cnt, off, len(chunk)))
            if off + len(chunk) < total:
                return PARTIAL, tf + chunk
            return tf + chunk
        if svc in (0x4D, 0x53):
            tl = len(tf)
            if d[:2] == b"\xa0\x02":
                got_tf = d[:4]
            else:
                got_tf = d[:2]
            hdr = len(got_tf) + 2 + (4 if svc == 0x53 else 0)
            if len(d) < hdr:
                raise CipError(E_TOO_LITTLE)
            if got_tf != tf:
                raise CipError(E_GENERAL, [X_TYPE_MISMATCH])
            cnt = struct.unpack_from("<H", d, tl)[0]
            off = struct.unpack_from("<I", d, tl + 2)[0] if svc == 0x53 else 0
            payload = d[hdr:]
            if r.tag.access in (2, 3):
                raise CipError(E_DENIED)
            if cnt == 0 or cnt > r.extent:
                raise CipError(E_GENERAL, [X_BEYOND_END])
            if r.bit is not None:
                if cnt != 1 or len(payload) != 1 or off:
                    raise CipError(E_TOO_LITTLE if len(payload) < 1 else E_TOO_MUCH)
                if payload[0]:
                    r.tag.data[r.offset] |= 1 << r.bit
                else:
                    r.tag.data[r.offset] &= ~(1 << r.bit) & 0xFF
                self.svc_log.append(("write", name, r.offset, 1, 0, 1, r.bit))
                return b""
            total = cnt * esz
            if svc == 0x4D:
                if len(payload) != total:
                    raise CipError(E_TOO_LITTLE if len(payload) < total else E_TOO_MUCH)
            else:
                if not payload:
                    raise CipError(E_TOO_LITTLE)
                if off + len(payload) > total:
                    raise CipError(E_TOO_MUCH)
            if r.typ == "BOOL":
                payload = bytes(1 if b else 0 for b in payload)
            r.tag.data[r.offset + off : r.offset + off + len(payload)] = payload
            self.svc_log.append(("write" if svc == 0x4D else "writefrag", name, r.offset, cnt, off, len(payload)))
            return b""
        if svc == 0x4E:
            if len(d) < 2:
                raise CipError(E_TOO_LITTLE)
            sz = struct.unpack_from("<H", d, 0)[0]
            if isinstance(r.typ, TypeDef) or r.typ in ("REAL", "LREAL", "BOOL") or r.bit is not None:
                raise CipError(E_GENERAL, [X_TYPE_MISMATCH])
            if sz != esz:
                raise CipError(E_GENERAL, [X_TYPE_MISMATCH])
            if len(d) != 2 + 2 * sz:
                raise CipError(E_TOO_LITTLE if len(d) < 2 + 2 * sz else E_TOO_MUCH)
            if r.tag.access in (2, 3):
                raise CipError(E_DENIED)
            om = int.from_bytes(d[2 : 2 + sz], "little")
            am = int.from_bytes(d[2 + sz :], "little")
            v = int.from_bytes(r.tag.data[r.offset : r.offset + sz], "little")
            v = (v | om) & am
            r.tag.data[r.offset : r.offset + sz] = v.to_bytes(sz, "little")
            self.svc_log.append(("rmw", name, r.offset, sz, om, am))
            return b""
        raise CipError(E_SERVICE)

"""Project model of a Logix controller: types, templates, tags, memory images, and the reference
interpretation of memory ("what the controller holds") used as oracle.  Imports nothing from pycomm3.

Layout rules (1756-PM020, checked against tests/pycomm3.L5X in p0.py): members are aligned to
their natural size capped at 4 (8-byte types on 8 for v21+ projects when `align8` is set), BOOL
members are packed into hidden SINT hosts, BOOL arrays are DWORD arrays, nested structures are
4-aligned, a structure's size is rounded up to a multiple of 4.
"""
import struct

from . import codec as R

ATOMS = {
    # name: (type code, size, codec descriptor)
    "BOOL": (0xC1, 1, ("bool",)),
    "SINT": (0xC2, 1, ("int", 1, True)),
    "INT": (0xC3, 2, ("int", 2, True)),
    "DINT": (0xC4, 4, ("int", 4, True)),
    "LINT": (0xC5, 8, ("int", 8, True)),
    "USINT": (0xC6, 1, ("int", 1, False)),
    "UINT": (0xC7, 2, ("int", 2, False)),
    "UDINT": (0xC8, 4, ("int", 4, False)),
    "ULINT": (0xC9, 8, ("int", 8, False)),
    "REAL": (0xCA, 4, ("real", 4)),
    "LREAL": (0xCB, 8, ("real", 8)),
    "DWORD": (0xD3, 4, ("bits", 4)),
}
CODE2ATOM = {v[0]: k for k, v in ATOMS.items()}
EXTERNAL_ACCESS = {0: "Read/Write", 1: "Reserved", 2: "Read Only", 3: "None"}
BASE_TAG_BIT = 1 << 26


class Member:
    def __init__(self, name, typ, offset, dim=0, bit=None, hidden=False):
        self.name, self.typ, self.offset, self.dim, self.bit, self.hidden = name, typ, offset, dim, bit, hidden

    @property
    def is_bit(self):
        return self.typ == "BOOL" and self.bit is not None

    def __repr__(self):
        return f"Member({self.name!r}, {self.typ if isinstance(self.typ, str) else self.typ.name}, off={self.offset}, dim={self.dim}, bit={self.bit}, hidden={self.hidden})"


class TypeDef:
    """A structure template."""

    def __init__(self, name, tid, handle, size, members, predefined=False, first_member_is_name=False):
        self.name, self.tid, self.handle, self.size, self.members = name, tid, handle, size, members
        self.predefined = predefined or tid < 0x100 or tid > 0xEFF
        self.first_member_is_name = first_member_is_name  # predefined types that carry their name as first member

    @property
    def visible(self):
        return [m for m in self.members if not self.hides(m)]

    def hides(self, m):
        n = m.name
        return m.hidden or n.startswith("ZZZZZZZZZZ") or n.startswith("__") or (self.predefined and n in ("CTL", "Control"))

    @property
    def string_capacity(self):
        """DATA array length if this is a LEN/DATA string structure, else None."""
        vis = self.visible
        if [m.name for m in vis] == ["LEN", "DATA"] and vis[1].typ == "SINT" and vis[1].dim and vis[0].typ == "DINT":
            return vis[1].dim
        return None

    def member(self, name):
        for m in self.members:
            if m.name == name:
                return m
        return None

    # ---- template object image (1756-PM020 ch. 3)
    def definition(self):
        out = b""
        for m in self.members:
            if m.is_bit:
                info, tcode = m.bit, 0xC1
            elif isinstance(m.typ, TypeDef):
                info, tcode = m.dim, 0x8000 | m.typ.tid | (0x2000 if m.dim else 0)
            else:
                info, tcode = m.dim, ATOMS[m.typ][0] | (0x2000 if m.dim else 0)
            out += struct.pack("<HHI", info, tcode, m.offset)
        if self.first_member_is_name:
            out += self.name.encode() + b"\x00"
        else:
            out += (self.name + ";n").encode() + b"\x00"
        for m in self.members:
            out += m.name.encode() + b"\x00"
        return out

    def definition_words(self):
        return (len(self.definition()) + 23 + 3) // 4

    def desc(self):
        """Reference codec descriptor of one structure image."""
        cap = self.string_capacity
        if cap is not None:
            return ("fixstr", self.size - 4, 4)
        mems, bits, hidden = [], [], set()
        for m in self.members:
            if self.hides(m):
                hidden.add(m.name)
            if m.is_bit:
                bits.append((m.name, m.offset, m.bit))
            else:
                d = type_desc(m.typ)
                if m.dim:
                    d = ("array", m.dim, d)
                mems.append((m.name, d, m.offset))
        return ("structtag", self.size, tuple(mems), tuple(bits), frozenset(hidden))

    def __repr__(self):
        return f"TypeDef({self.name}, tid={self.tid:#x}, size={self.size})"


def type_desc(typ):
    return typ.desc() if isinstance(typ, TypeDef) else ATOMS[typ][2]


def type_size(typ):
    return typ.size if isinstance(typ, TypeDef) else ATOMS[typ][1]


def type_name(typ):
    return typ.name if isinstance(typ, TypeDef) else typ


class TagDef:
    def __init__(self, name, typ, dims=(), instance_id=0, scope=None, access=0, alias=False, kind="tag", symbol_type=None, bool_bit=0):
        self.name, self.typ, self.dims = name, typ, tuple(dims)
        self.instance_id, self.scope, self.access, self.alias, self.kind = instance_id, scope, access, alias, kind
        self.bool_bit = bool_bit
        self._symbol_type = symbol_type
        self.data = bytearray(self.nbytes)

    @property
    def elements(self):
        n = 1
        for d in self.dims:
            n *= d
        return n

    @property
    def nbytes(self):
        if self.typ is None:
            return 0
        return type_size(self.typ) * self.elements

    @property
    def symbol_type(self):
        if self._symbol_type is not None:
            return self._symbol_type
        if isinstance(self.typ, TypeDef):
            st = 0x8000 | self.typ.tid
        else:
            st = ATOMS[self.typ][0]
            if self.typ == "BOOL":
                st |= (self.bool_bit & 7) << 8
        st |= len(self.dims) << 13
        return st

    @property
    def full_name(self):
        return f"Program:{self.scope}.{self.name}" if self.scope else self.name

    @property
    def visible(self):
        """Does the tag belong to the user-visible tag list (CIP symbol filtering rules of the docs)?"""
        n = self.name
        if self.kind != "tag" and self.kind != "module":
            return False
        if self.symbol_type & 0x1000:
            return False
        return True

    def __repr__(self):
        return f"TagDef({self.full_name}, {type_name(self.typ) if self.typ else None}{list(self.dims) if self.dims else ''}, id={self.instance_id})"


class Project:
    def __init__(self, name, major=32, minor=11, product_name="1756-L83E/B", program_name="MainProgramName"):
        self.name = name
        self.major, self.minor, self.product_name = major, minor, product_name
        self.controller_name = program_name
        self.types = {}  # tid -> TypeDef
        self.symbols = []  # controller scope TagDefs (all kinds)
        self.programs = {}  # program name -> list of TagDefs (tags and Routine: symbols)
        self._next_id = 1

    # ---- building
    def add_type(self, td):
        self.types[td.tid] = td
        return td

    def add(self, tag):
        (self.programs.setdefault(tag.scope, []) if tag.scope else self.symbols).append(tag)
        return tag

    def tag(self, name, typ, dims=(), scope=None, instance_id=None, **kw):
        if instance_id is None:
            instance_id = self._next_id
            self._next_id += 1
        return self.add(TagDef(name, typ, dims, instance_id, scope, **kw))

    # ---- lookup
    def all_tags(self):
        for t in self.symbols:
            if t.kind in ("tag", "module"):
                yield t
        for p, lst in self.programs.items():
            for t in lst:
                if t.kind == "tag":
                    yield t

    def user_tags(self):
        return [t for t in self.all_tags() if t.visible and not hidden_symbol_name(t.name, t.kind)]

    def find(self, full_name):
        for t in self.all_tags():
            if t.full_name == full_name:
                return t
        return None

    def identity(self):
        from .wire import DEFAULT_IDENTITY

        return dict(DEFAULT_IDENTITY, major=self.major, minor=self.minor, product_name=self.product_name)

    def clone(self):
        """A copy with its own tag memory (types are shared, they are immutable)."""
        q = Project(self.name, self.major, self.minor, self.product_name, self.controller_name)
        q.types = self.types
        q._next_id = self._next_id

        def cp(t):
            n = TagDef(t.name, t.typ, t.dims, t.instance_id, t.scope, t.access, t.alias, t.kind, t._symbol_type, t.bool_bit)
            n.data[:] = t.data
            return n
        q.symbols = [cp(t) for t in self.symbols]
        q.programs = {k: [cp(t) for t in v] for k, v in self.programs.items()}
        return q

    # ---- memory images
    def snapshot(self):
        return {t.full_name: bytes(t.data) for t in self.all_tags()}

    def restore(self, snap):
        for t in self.all_tags():
            t.data[:] = snap[t.full_name]


def hidden_symbol_name(name, kind):
    """System / junk symbol names that are not user tags (module I/O tags are kept)."""
    if name.startswith("__"):
        return True
    if kind == "module":
        return False
    return ":" in name


# ---------------------------------------------------------------- layout helper
def layout(name, tid, handle, fields, predefined=False, align8=False):
    """Build a TypeDef from a field list with the reference layout rules.

    fields: (name, type, dim) with type an atom name, 'BOOL' (packed into hidden SINT hosts,
    dim 0), ('BOOLS', n) for a BOOL[n] member (stored as DWORD[n/32]) or a TypeDef.
    """
    members = []
    off = 0
    align = 4
    host = None  # (Member, next free bit)
    hostno = 0
    for fname, ftyp, dim in fields:
        if ftyp == "BOOL" and not dim:
            if host is None or host[1] > 7:
                hm = Member(f"ZZZZZZZZZZ{name[:10]}{hostno}", "SINT", off, 0, None, hidden=True)
                hostno += 1
                members.append(hm)
                off += 1
                host = [hm, 0]
            members.append(Member(fname, "BOOL", host[0].offset, 0, host[1]))
            host[1] += 1
            continue
        host = None
        if ftyp == "BOOL" and dim:
            ftyp, dim = "DWORD", dim // 32
        if isinstance(ftyp, TypeDef):
            sz, al = ftyp.size, 4 if not align8 else max(4, getattr(ftyp, "align", 4))
        else:
            sz = ATOMS[ftyp][1]
            al = min(sz, 8 if align8 else 4)
        off = (off + al - 1) // al * al
        members.append(Member(fname, ftyp, off, dim))
        off += sz * (dim or 1)
        align = max(align, al)
    size = (off + align - 1) // align * align
    td = TypeDef(name, tid, handle, size, members, predefined=predefined)
    td.align = align
    return td


def string_type(name, tid, cap, handle=None):
    size = (4 + cap + 3) // 4 * 4
    return TypeDef(name, tid, handle if handle is not None else tid, size, [Member("LEN", "DINT", 0), Member("DATA", "SINT", 4, cap)], predefined=(name == "STRING"))


# ---------------------------------------------------------------- reference interpretation
def element_value(typ, raw):
    """Python value of one element image per the documented result shapes."""
    d = type_desc(typ)
    v, _ = R.dec(d, raw, 0)
    return v


def tag_value(tag, start=0, count=None):
    """Value of `count` elements of a tag from flat element index `start` (None: scalar or whole array)."""
    sz = type_size(tag.typ)
    if tag.typ == "DWORD":
        raise ValueError("use bool_array_value")
    if count is None and not tag.dims:
        return element_value(tag.typ, bytes(tag.data[:sz]))
    n = count if count is not None else tag.elements
    return [element_value(tag.typ, bytes(tag.data[(start + i) * sz : (start + i + 1) * sz])) for i in range(n)]


def bools_of(data):
    out = []
    for b in data:
        for i in range(8):
            out.append(bool(b >> i & 1))
    return out


# ---------------------------------------------------------------- typed memory images
INT_BOUNDS = {1: [0, 1, -1, 127, -128, 0x5A, -0x5B, 2], 2: [0, 1, -1, 32767, -32768, 0x1234, -0x1235, 256], 4: [0, 1, -1, 2147483647, -2147483648, 0x12345678, -0x12345679, 65536],
              8: [0, 1, -1, (1 << 63) - 1, -(1 << 63), 0x0102030405060708, -0x0102030405060709, 1 << 32]}
REAL_BOUNDS = [0.0, 1.0, -1.5, 3.4028234663852886e38, 1.401298464324817e-45, 100.25, -123456.0, 1.17549435e-38]


def fill_image(project, image):
    """Typed image #image: every leaf takes a value of its type's boundary set as the image index rotates,
    neighbouring leaves differ, pad/hidden bytes hold 0xA5; image -1 = all zero, -2 = all ones (valid strings)."""
    ordinal = [0]

    def fill(typ, buf, off):
        if isinstance(typ, TypeDef):
            cap = typ.string_capacity
            if cap is not None:
                k = ordinal[0] + image
                ordinal[0] += 1
                if image == -1:
                    n, chars = 0, b""
                elif image == -2:
                    n = cap
                    chars = b"\xff" * cap
                else:
                    n = [0, 1, cap, cap - 1, min(5, cap), cap // 2][k % 6]
                    chars = bytes(((k * 13 + j * 7) % 255) + 1 for j in range(n))
                buf[off : off + 4] = struct.pack("<i", n)
                rest = typ.size - 4
                stale = bytes((0x30 + (j % 10)) for j in range(rest - n)) if image >= 0 else bytes(rest - n) if image == -1 else b"\xff" * (rest - n)
                buf[off + 4 : off + typ.size] = chars + stale
                return
            if image >= 0:
                buf[off : off + typ.size] = b"\xA5" * typ.size
            elif image == -2:
                buf[off : off + typ.size] = b"\xFF" * typ.size
            else:
                buf[off : off + typ.size] = bytes(typ.size)
            hosts = {}
            for m in typ.members:
                if m.is_bit:
                    continue
                if m.typ == "SINT" and typ.hides(m) and any(b.is_bit and b.offset == m.offset for b in typ.members):
                    if image >= 0:
                        buf[off + m.offset] = 0xA5  # unused host bits keep the pad pattern
                    continue
                for i in range(m.dim or 1):
                    fill(m.typ, buf, off + m.offset + i * type_size(m.typ))
            for m in typ.members:
                if m.is_bit:
                    k = ordinal[0] + image
                    ordinal[0] += 1
                    v = (k % 3 == 0) if image >= 0 else (image == -2)
                    if v:
                        buf[off + m.offset] |= 1 << m.bit
                    else:
                        buf[off + m.offset] &= ~(1 << m.bit) & 0xFF
            return
        code, sz, d = ATOMS[typ]
        k = ordinal[0] + image
        ordinal[0] += 1
        if image == -1:
            buf[off : off + sz] = bytes(sz)
        elif image == -2:
            buf[off : off + sz] = b"\xff" * sz if typ not in ("REAL", "LREAL") else R.enc(d, -1.0)
            if typ == "BOOL":
                buf[off] = 1
        elif typ == "BOOL":
            buf[off] = 1 if k % 2 else 0
        elif d[0] == "int":
            v = INT_BOUNDS[sz][k % 8]
            if not d[2]:
                v &= (1 << (8 * sz)) - 1
            buf[off : off + sz] = R.enc(d, v)
        elif d[0] == "real":
            buf[off : off + sz] = R.enc(d, REAL_BOUNDS[k % 8])
        else:  # DWORD
            buf[off : off + sz] = struct.pack("<I", [0x80000001, 0x00000002, 0xFFFFFFFE, 0xA5A5A5A5, 0x00010000, 0x7FFFFFFF, 0, 0xFFFFFFFF][k % 8])

    for t in project.all_tags():
        if t.typ is None:
            continue
        sz = type_size(t.typ)
        for i in range(t.elements):
            fill(t.typ, t.data, i * sz)

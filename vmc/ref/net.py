"""Scripted TCP/UDP endpoint standing in for the OS socket layer.

`install()` replaces ``socket.socket`` / name resolution / ``os.urandom`` / ``time.time``
on the *standard library modules themselves*, before pycomm3 is imported, so the seams hold
whichever way the library spells its imports.  The real ``pycomm3.socket_.Socket`` loops run
on top of :class:`FakeSocket` in every scenario.

A :class:`World` owns one client endpoint and one target (``vmc.ref.enip.Target`` or any
object with ``tcp_open() / feed(bytes) -> bytes / tcp_closed_by_peer``).  Everything the
network may decide is a choice point of the world's ``ctx``.
"""
import os
import socket as _socket
import time as _time

from vmc.core.explore import BudgetExceeded, Ctx, HarnessBug

WORLD = None
_real = {}


class FakeSocket:
    def __init__(self, family=-1, type=-1, proto=-1, fileno=None):
        if WORLD is None:
            raise OSError("vmc: socket created outside a World")
        self.family = family
        self.type = type
        self.world = WORLD
        self.timeout = None
        self.closed = False
        self.connected_to = None
        self.bound = None
        self.ep = None  # the target's endpoint for this TCP connection
        self.rx = bytearray()  # bytes the target has sent on this connection, not yet received by the client
        self.rx_delivered = 0  # stream offset of the next byte the client will receive
        self.tx_accepted = 0
        self.tx_pending = b""
        self.peer_gone = False
        self.pending_send_err = False
        self.send_stuck = False  # after a 'send_timeout' fault: the peer's window stays closed, every further send times out
        self.dead = False  # a reset / broken-pipe error has been reported: the connection stays unusable
        self.world.sockets.append(self)

    # --- options
    def settimeout(self, t):
        self.timeout = t

    def gettimeout(self):
        return self.timeout

    def setsockopt(self, *a):
        pass

    def setblocking(self, flag):
        pass

    def fileno(self):
        return -1

    # --- TCP
    def connect(self, addr):
        self.world._connect(self, addr)

    def send(self, data, flags=0):
        return self.world._send(self, bytes(data))

    def sendall(self, data, flags=0):
        data = bytes(data)
        sent = 0
        while sent < len(data):
            sent += self.world._send(self, data[sent:])

    def recv(self, bufsize, flags=0):
        return self.world._recv(self, bufsize)

    def recv_into(self, buffer, nbytes=0, flags=0):
        data = self.world._recv(self, nbytes or len(buffer))
        buffer[: len(data)] = data
        return len(data)

    def shutdown(self, how):
        pass

    def close(self):
        self.world._close(self)

    # --- UDP
    def bind(self, addr):
        self.bound = addr

    def sendto(self, data, addr):
        return self.world._sendto(self, bytes(data), addr)

    def recvfrom(self, bufsize):
        return self.world._recv(self, bufsize), ("10.0.0.1", 44818)

    def __enter__(self):
        return self

    def __exit__(self, *a):
        self.close()


def _gethostbyname(host):
    if WORLD is None:
        return _real["gethostbyname"](host)
    return WORLD._resolve(host)


def _getaddrinfo(host, port, *a, **k):
    if WORLD is None:
        return _real["getaddrinfo"](host, port, *a, **k)
    return [
        (_socket.AddressFamily.AF_INET, _socket.SOCK_STREAM, 6, "", (ip, port or 0)) for ip in WORLD.local_ips
    ]


def _gethostname():
    if WORLD is None:
        return _real["gethostname"]()
    return "vmc-host"


def _urandom(n):
    if WORLD is None:
        return _real["urandom"](n)
    return WORLD._urandom(n)


def _time_time():
    if WORLD is None or WORLD.clock is None:
        return _real["time"]()
    return WORLD.clock


def install():
    if _real:
        return
    _real.update(
        socket=_socket.socket,
        gethostbyname=_socket.gethostbyname,
        getaddrinfo=_socket.getaddrinfo,
        gethostname=_socket.gethostname,
        urandom=os.urandom,
        time=_time.time,
    )
    _socket.socket = FakeSocket
    _socket.gethostbyname = _gethostbyname
    _socket.getaddrinfo = _getaddrinfo
    _socket.gethostname = _gethostname
    os.urandom = _urandom
    _time.time = _time_time


class World:
    """One client process + one target + the network in between.

    faults: dict io_index -> kind, kinds:
       'send_err'      the send call raises OSError, nothing delivered
       'send_partial'  the send call delivers 1 byte and the *next* send raises OSError
       'send_zero'     the send call returns 0
       'send_zero_forever'  this and every later send call return 0
       'reply_lost'    the pending reply is discarded and the recv call times out; the connection stays alive
       'send_timeout'  the send call raises socket.timeout, and so does every later send on that socket (window closed for good)
       'recv_err'      the recv call raises OSError
       'recv_close'    the peer has vanished: this and later recv calls return b''
       'recv_trunc'    the recv call returns one byte less than available, then the peer is gone
    io_index counts send+recv calls (TCP and UDP) from the last `arm()`.
    """

    def __init__(self, target, ctx=None, *, io_budget=20000, faults=None, chunk_choices=False,
                 send_choices=False, refuse_tcp=False, unresolvable=False, clock=1_600_000_000.25,
                 local_ips=("10.0.0.2",), cutset=None, rx_end="timeout", send_cutset=None, send_regime=None):
        self.target = target
        self.ctx = ctx if ctx is not None else Ctx()
        self.io_budget = io_budget
        self.faults = dict(faults or {})
        self.chunk_choices = chunk_choices
        self.send_choices = send_choices
        self.cutset = cutset  # None: every stream offset may be a chunk boundary; else only these offsets
        self.send_cutset = send_cutset
        self.send_regime = send_regime  # None: a send takes everything; '3/4' | '1/2' | '1': every send takes that part of what is offered (short writes)
        self.rx_end = rx_end  # what an empty receive buffer means: 'timeout' | 'close' | 'error'
        self.refuse_tcp = refuse_tcp
        self.unresolvable = unresolvable
        self.clock = clock
        self.local_ips = list(local_ips)
        self.sockets = []
        self.dgrams = []
        self.io = 0  # I/O index since arm()
        self.io_total = 0
        self.armed = False
        self.budget_hit = False
        self.fault_fired = []
        self.send_calls = []  # bytes objects, one per OS-level send call (what was *offered*)
        self.messages = []  # what was offered at message starts (= one entry per Socket.send call of the library)
        self.tx_anomalies = []
        self.accepted = bytearray()  # bytes the network accepted, in order
        self.tcp_connects = 0
        self.last_sock = None
        self._rand = 0
        self._prev = None

    # context manager: make this the current world
    def __enter__(self):
        global WORLD
        self._prev = WORLD
        WORLD = self
        return self

    def __exit__(self, *a):
        global WORLD
        WORLD = self._prev

    def arm(self, faults=None):
        """Start counting I/O indices from here (faults are relative to this point)."""
        self.io = 0
        self.armed = True
        if faults is not None:
            self.faults = dict(faults)

    def disarm(self):
        self.armed = False
        self.faults = {}

    @property
    def tcp_open(self):
        return any(s.ep is not None and not s.closed for s in self.sockets)

    @property
    def rx(self):
        """Receive buffer of the most recently connected socket (single-connection scenarios)."""
        return self.last_sock.rx

    # --- helpers
    def _tick(self):
        self.io_total += 1
        if self.io_total > self.io_budget:
            self.budget_hit = True
            raise BudgetExceeded("I/O budget")
        k = self.io
        self.io += 1
        if self.armed and k in self.faults:
            kind = self.faults[k]
            self.fault_fired.append((k, kind))
            return kind
        return None

    def _urandom(self, n):
        out = bytearray()
        while len(out) < n:
            self._rand += 1
            out += (self._rand * 0x9E3779B1 & 0xFFFFFFFF).to_bytes(4, "little")
        return bytes(out[:n])

    def _resolve(self, host):
        if self.unresolvable:
            raise _socket.gaierror(-2, "Name or service not known")
        return host if host.replace(".", "").isdigit() else "10.9.9.9"

    # --- TCP
    def _connect(self, sock, addr):
        if self.refuse_tcp:
            raise ConnectionRefusedError(111, "Connection refused")
        self.tcp_connects += 1
        sock.connected_to = addr
        sock.ep = self.target.accept(addr)
        self.last_sock = sock

    def _send(self, sock, data):
        if sock.type == _socket.SOCK_DGRAM:
            raise OSError("send on datagram socket")
        fault = self._tick()
        self.send_calls.append(data)
        if sock.closed or sock.ep is None:
            raise OSError(9, "Bad file descriptor")
        if sock.dead:
            raise BrokenPipeError(32, "Broken pipe")
        if sock.pending_send_err:
            sock.pending_send_err = False
            sock.dead = True
            raise ConnectionResetError(104, "Connection reset by peer")
        if fault == "send_timeout" or sock.send_stuck:
            sock.send_stuck = True
            raise _socket.timeout("timed out")
        if fault == "send_err":
            sock.dead = True
            raise BrokenPipeError(32, "Broken pipe")
        if fault == "send_zero":
            return 0
        if fault == "send_zero_forever" or getattr(sock, "send_zero_stuck", False):
            sock.send_zero_stuck = True  # the connection is broken for good: every send returns 0 from now on
            return 0
        n = len(data)
        if fault == "send_partial" and n > 1:
            n = 1
            sock.pending_send_err = True
        elif self.send_regime and not str(self.send_regime).startswith("tail") and n > 1:
            n = {"3/4": max(1, (3 * n) // 4), "1/2": max(1, n // 2), "1": 1}[self.send_regime]
        elif self.send_choices and len(data) > 1:
            # default: everything accepted; alternatives: fewer bytes accepted (a partial send)
            cands = [k for k in range(1, len(data)) if self.send_cutset is None or (sock.tx_accepted + k) in self.send_cutset]
            if cands:
                c = self.ctx.choose("send@%d" % sock.tx_accepted, len(cands) + 1, 0)
                if c:
                    n = cands[c - 1]
        if sock.peer_gone or sock.ep.closed_by_peer:
            raise BrokenPipeError(32, "Broken pipe")
        # message boundaries: a send call made when nothing is pending starts a new message
        if sock.tx_pending:
            if data != sock.tx_pending:
                self.tx_anomalies.append(("resend-mismatch", len(sock.tx_pending), len(data)))
        else:
            self.messages.append(data)
        sock.tx_pending = data[n:]
        chunk = data[:n]
        sock.tx_accepted += n
        self.accepted += chunk
        try:
            reply = sock.ep.feed(chunk)
        except Exception as e:  # noqa - a bug of the reference target, not a modelled fault
            raise HarnessBug(f"reference target failed: {type(e).__name__}: {e}") from e
        if reply:
            sock.rx += reply
        return n

    def _recv(self, sock, bufsize):
        fault = self._tick()
        if sock.type == _socket.SOCK_DGRAM:
            if fault in ("recv_err",):
                raise OSError(5, "I/O error")
            if self.dgrams:
                return self.dgrams.pop(0)[:bufsize]
            raise _socket.timeout("timed out")
        if sock.closed or sock.ep is None:
            raise OSError(9, "Bad file descriptor")
        if sock.dead:
            raise ConnectionResetError(104, "Connection reset by peer")
        if fault == "recv_err":
            sock.dead = True
            raise ConnectionResetError(104, "Connection reset by peer")
        if sock.pending_send_err:
            sock.pending_send_err = False
            sock.dead = True
            raise ConnectionResetError(104, "Connection reset by peer")
        if fault == "reply_lost":
            # the reply never arrives (the target did execute the request): this receive times out, the TCP connection stays usable
            if hasattr(sock.ep, "note_lost"):
                sock.ep.note_lost(bytes(sock.rx))
            sock.rx.clear()
            raise _socket.timeout("timed out")
        if fault == "recv_close":
            sock.peer_gone = True
            sock.rx.clear()
        if sock.peer_gone and not sock.rx:
            return b""
        if not sock.rx:
            if sock.ep.closed_by_peer or self.rx_end == "close":
                return b""
            if self.rx_end == "error":
                raise ConnectionResetError(104, "Connection reset by peer")
            raise _socket.timeout("timed out")
        avail = min(bufsize, len(sock.rx))
        n = avail
        if fault == "recv_trunc":
            n = max(avail - 1, 0)
            sock.peer_gone = True
            out = bytes(sock.rx[:n])
            sock.rx.clear()
            return out
        if self.send_regime and str(self.send_regime).startswith("tail") and avail > int(self.send_regime[4:]):
            # receive-side regime: every reply arrives in two TCP segments, the second one holding its last r bytes
            n = avail - int(self.send_regime[4:])
        elif self.chunk_choices and avail > 1:
            cands = [k for k in range(1, avail) if self.cutset is None or (sock.rx_delivered + k) in self.cutset]
            if cands:
                c = self.ctx.choose("recv@%d" % sock.rx_delivered, len(cands) + 1, 0)
                if c:
                    n = cands[c - 1]
        out = bytes(sock.rx[:n])
        del sock.rx[:n]
        sock.rx_delivered += n
        return out

    def _close(self, sock):
        if sock.closed:
            return
        sock.closed = True
        if sock.type != _socket.SOCK_DGRAM and sock.ep is not None:
            sock.ep.close()

    # --- UDP
    def _sendto(self, sock, data, addr):
        fault = self._tick()
        if fault == "send_err":
            raise OSError(101, "Network is unreachable")
        for d in self.target.udp(data, addr, sock.bound):
            self.dgrams.append(d)
        return len(data)

"""Strict EtherNet/IP encapsulation + common packet format + message router framing (CIP Vol 2 ch. 2).

Imports nothing from pycomm3.  Parsers raise WireError naming the violated rule.
"""
import struct

from . import epath as E

CMD_NOP = 0x0000
CMD_LIST_IDENTITY = 0x0063
CMD_REGISTER = 0x0065
CMD_UNREGISTER = 0x0066
CMD_RRDATA = 0x006F
CMD_UNITDATA = 0x0070

ITEM_NULL = 0x0000
ITEM_IDENTITY = 0x000C
ITEM_CONNECTED_ADDR = 0x00A1
ITEM_CONNECTED_DATA = 0x00B1
ITEM_UNCONNECTED_DATA = 0x00B2


class WireError(Exception):
    pass


class Frame:
    __slots__ = ("command", "length", "session", "status", "context", "options", "body")

    def __init__(self, command, length, session, status, context, options, body):
        self.command, self.length, self.session, self.status = command, length, session, status
        self.context, self.options, self.body = context, options, body

    def __repr__(self):
        return f"Frame(cmd={self.command:#06x}, len={self.length}, session={self.session:#x}, status={self.status:#x}, body={self.body[:16].hex()}..)"


def frame_len(buf):
    """Total length of the frame starting at buf[0], or None if the header is incomplete."""
    if len(buf) < 24:
        return None
    return 24 + struct.unpack_from("<H", buf, 2)[0]


def parse_frame(buf):
    if len(buf) < 24:
        raise WireError(f"frame of {len(buf)} bytes is shorter than the 24-byte header")
    command, length, session, status = struct.unpack_from("<HHII", buf, 0)
    context = bytes(buf[12:20])
    (options,) = struct.unpack_from("<I", buf, 20)
    body = bytes(buf[24:])
    if len(body) != length:
        raise WireError(f"length field {length} but {len(body)} bytes follow the header")
    return Frame(command, length, session, status, context, options, body)


def build_frame(command, session, body=b"", status=0, context=b"\x00" * 8, options=0):
    return struct.pack("<HHII", command, len(body), session, status) + context + struct.pack("<I", options) + body


def parse_cpf(body):
    """-> (interface handle, timeout, [(type, data), ...]); strict: nothing may trail."""
    if len(body) < 8:
        raise WireError("common packet shorter than interface handle + timeout + item count")
    iface, timeout, count = struct.unpack_from("<IHH", body, 0)
    pos = 8
    items = []
    for i in range(count):
        if pos + 4 > len(body):
            raise WireError(f"item {i}: header truncated")
        typ, ln = struct.unpack_from("<HH", body, pos)
        pos += 4
        data = bytes(body[pos : pos + ln])
        if len(data) != ln:
            raise WireError(f"item {i} (type {typ:#06x}): length {ln} but {len(data)} bytes present")
        pos += ln
        items.append((typ, data))
    if pos != len(body):
        raise WireError(f"{len(body) - pos} byte(s) trail the last item")
    return iface, timeout, items


def build_cpf(items, timeout=0, iface=0):
    out = struct.pack("<IHH", iface, timeout, len(items))
    for typ, data in items:
        out += struct.pack("<HH", typ, len(data)) + data
    return out


class MRRequest:
    __slots__ = ("service", "path", "raw_path", "data", "raw")

    def __init__(self, service, path, raw_path, data, raw):
        self.service, self.path, self.raw_path, self.data, self.raw = service, path, raw_path, data, raw

    def __repr__(self):
        return f"MRRequest(service={self.service:#04x}, path={self.path!r}, data={self.data[:24].hex()})"


def parse_mr_request(buf):
    """service(1) path words(1) padded EPATH data -> MRRequest.  Raises WireError / EPathError."""
    if len(buf) < 2:
        raise WireError("message router request shorter than service + path size")
    service = buf[0]
    if service & 0x80:
        raise WireError("reply bit set in a request service code")
    segs, raw, pos = E.take_counted(buf, 1)
    return MRRequest(service, segs, raw, bytes(buf[pos:]), bytes(buf))


def build_mr_reply(service, status=0, ext=(), data=b""):
    out = bytes([service | 0x80, 0, status, len(ext)])
    for w in ext:
        out += struct.pack("<H", w)
    return out + data


def parse_mr_reply(buf):
    if len(buf) < 4:
        raise WireError("reply shorter than 4 bytes")
    n = buf[3]
    ext = [struct.unpack_from("<H", buf, 4 + 2 * i)[0] for i in range(n)]
    return buf[0], buf[2], ext, bytes(buf[4 + 2 * n :])


# ---------------------------------------------------------------- identity
def identity_body(idn):
    """vendor .. product name (the Identity object's Get_Attributes_All image)."""
    name = idn["product_name"]
    nb = name if isinstance(name, bytes) else name.encode("latin-1")
    return (
        struct.pack("<HHHBB", idn["vendor"], idn["product_type"], idn["product_code"], idn["major"], idn["minor"])
        + bytes(idn["status"])
        + struct.pack("<I", idn["serial"])
        + bytes([len(nb)])
        + nb
    )


def list_identity_item(idn):
    ip = bytes(int(x) for x in idn.get("ip", "10.0.0.1").split("."))
    sock = struct.pack(">hH", 2, idn.get("tcp_port", 44818)) + ip + bytes(8)
    data = struct.pack("<H", idn.get("encap_version", 1)) + sock + identity_body(idn) + bytes([idn.get("state", 3)])
    return struct.pack("<H", 1) + struct.pack("<HH", ITEM_IDENTITY, len(data)) + data


DEFAULT_IDENTITY = {
    "vendor": 1,
    "product_type": 14,
    "product_code": 55,
    "major": 32,
    "minor": 11,
    "status": b"\x60\x31",
    "serial": 0xC00FA09B,
    "product_name": "1756-L83E/B",
    "state": 3,
    "ip": "10.0.0.1",
}

"""The project family (generated projects P1..P5).  P0 (the demo project of tests/pycomm3.L5X) is in p0.py."""
from .projects import Project, TagDef, TypeDef, Member, layout, string_type, fill_image


def std_types(p, with_string=True):
    """Predefined types every controller has."""
    t = {}
    if with_string:
        t["STRING"] = p.add_type(string_type("STRING", 0xFCE, 82))
    return t


def p1_atoms(reduced=False):
    """All atomic types; 1-3 dimensional arrays; BOOL[32k]; odd/even names; 8/16/32-bit instance ids."""
    p = Project("P1")
    ids = iter([3, 0x7F, 0xFF, 0x100, 0x1234, 0xFFFF, 0x10000, 0x12345, 0xFFFFF] + list(range(0x20000, 0x20100)))
    atoms = ["SINT", "INT", "DINT", "LINT", "REAL"] + ([] if reduced else ["USINT", "UINT", "UDINT", "ULINT", "LREAL"])
    for a in atoms:
        p.tag(f"{a.lower()}_s", a, instance_id=next(ids))
        p.tag(f"{a.lower()}_ary", a, (6,), instance_id=next(ids))
    p.tag("b", "BOOL", instance_id=next(ids))
    p.tag("b_set", "BOOL", instance_id=next(ids), bool_bit=3)
    p.tag("bools32", "DWORD", (1,), instance_id=next(ids))
    p.tag("bools96", "DWORD", (3,), instance_id=next(ids))
    p.tag("d2", "DINT", (3, 4), instance_id=next(ids))
    p.tag("i3", "INT", (2, 3, 4), instance_id=next(ids))
    p.tag("odd", "DINT", instance_id=next(ids))
    p.tag("even_name", "INT", (300,), instance_id=next(ids))
    p.tag("X", "SINT", (17,), instance_id=next(ids))
    p.tag("a_tag_name_of_exactly_forty_characters__", "DINT", instance_id=next(ids))
    p.tag("big_sint", "SINT", (1700 if reduced else 9000,), instance_id=next(ids))  # three and more fragments at both sizes
    if not reduced:
        p.tag("big_lint", "LINT", (700,), instance_id=next(ids))
    return p


def p2_structs(reduced=False):
    """Packed BOOLs over two hosts, padding, nesting to depth 3, arrays of structures, strings of several capacities."""
    p = Project("P2")
    T = std_types(p)
    s20 = p.add_type(string_type("STRING20", 0x2A1, 20, handle=0x9A01))
    s1 = p.add_type(string_type("STR1", 0x2A2, 1, handle=0x9A02))
    s480 = p.add_type(string_type("STRING480", 0x2A3, 480, handle=0x9A03))
    bools = p.add_type(layout("BoolsUDT", 0x301, 0xB001, [(f"b{i}", "BOOL", 0) for i in range(11)] + [("after", "INT", 0)]))
    padded = p.add_type(layout("PaddedUDT", 0x302, 0xB002, [("s1", "SINT", 0), ("d1", "DINT", 0), ("flag", "BOOL", 0), ("i1", "INT", 0), ("l1", "LINT", 0), ("r1", "REAL", 0)]))
    arrs = p.add_type(layout("ArraysUDT", 0x303, 0xB003, [("sa", "SINT", 5), ("ia", "INT", 3), ("ba", "BOOL", 64), ("da", "DINT", 2), ("ra", "REAL", 2)]))
    inner = p.add_type(layout("InnerUDT", 0x304, 0xB004, [("x", "INT", 0), ("on", "BOOL", 0), ("off", "BOOL", 0), ("name", s20, 0), ("vals", "DINT", 3)]))
    mid = p.add_type(layout("MidUDT", 0x305, 0xB005, [("count", "SINT", 0), ("one", inner, 0), ("many", inner, 2), ("pad", padded, 0)]))
    outer = p.add_type(layout("OuterUDT", 0x306, 0xB006, [("id", "DINT", 0), ("mid", mid, 0), ("bools", bools, 0), ("text", T["STRING"], 0), ("mids", mid, 2), ("tail", "SINT", 0)]))
    # a structure with double-underscore / unnamed hidden members and a DWORD member
    hid = TypeDef("HiddenUDT", 0x307, 0xB007, 16, [Member("__hid", "DINT", 0, hidden=True), Member("vis", "DINT", 4), Member("", "INT", 8, hidden=True), Member("dw", "DWORD", 12, 1)])
    p.add_type(hid)
    # predefined-range template whose name is its first member, with a hidden CTL member (TIMER-like)
    timer = TypeDef("TIMER", 0xF83, 0x0F83, 12, [Member("CTL", "DINT", 0), Member("PRE", "DINT", 4), Member("ACC", "DINT", 8),
                                                   Member("EN", "BOOL", 3, 0, 7), Member("TT", "BOOL", 3, 0, 6), Member("DN", "BOOL", 3, 0, 5)], predefined=True, first_member_is_name=False)
    p.add_type(timer)
    # header-less predefined templates (the name travels as the first member name) at both ends of the predefined id ranges
    hl = []
    for nm, tid, hnd in (("COUNTER", 0xF82, 0x0F82), ("ModA5", 0x0A5, 0x1A5), ("Mod20", 0x020, 0x120), ("ModFF", 0x0FF, 0x1FF), ("Mod64", 0x064, 0x164)):
        hl.append(p.add_type(TypeDef(nm, tid, hnd, 12, [Member("CTL", "DINT", 0), Member("PRE", "DINT", 4), Member("ACC", "DINT", 8),
                                                   Member("CU", "BOOL", 3, 0, 7), Member("DN", "BOOL", 3, 0, 5)], predefined=True, first_member_is_name=True)))
    # structures that merely START like a string (LEN, DATA, then more), and ones whose LEN / DATA have other types
    packet = p.add_type(layout("Packet", 0x30A, 0xB00A, [("LEN", "DINT", 0), ("DATA", "SINT", 16), ("CRC", "DINT", 0), ("Valid", "BOOL", 0)]))
    logline = p.add_type(layout("LogLine", 0x30B, 0xB00B, [("LEN", "DINT", 0), ("DATA", "SINT", 40), ("Severity", "INT", 0)]))
    notstr = p.add_type(layout("NotStr", 0x30C, 0xB00C, [("LEN", "INT", 0), ("DATA", "INT", 8)]))
    holder = p.add_type(layout("PacketHolder", 0x30D, 0xB00D, [("pk", packet, 0), ("lines", logline, 2), ("n", notstr, 0)]))
    # an AOI-like type with EnableIn/EnableOut
    aoi = p.add_type(layout("MyAOI", 0x308, 0xB008, [("EnableIn", "BOOL", 0), ("EnableOut", "BOOL", 0), ("param", "DINT", 0), ("local", padded, 0)]))
    ids = iter(range(10, 400))
    p.tag("bools1", bools, instance_id=next(ids))
    p.tag("padded1", padded, instance_id=next(ids))
    p.tag("padded_ary", padded, (3,), instance_id=next(ids))
    p.tag("arrs1", arrs, instance_id=next(ids))
    p.tag("arrs_ary", arrs, (3,), instance_id=next(ids))  # BOOL-array member behind an indexed element
    p.tag("inner1", inner, instance_id=next(ids))
    p.tag("mid1", mid, instance_id=next(ids))
    p.tag("outer1", outer, instance_id=next(ids))
    p.tag("str1", T["STRING"], instance_id=next(ids))
    p.tag("str_ary", T["STRING"], (3,), instance_id=next(ids))
    p.tag("s20", s20, instance_id=next(ids))
    p.tag("s20_ary", s20, (4,), instance_id=next(ids))
    p.tag("s1", s1, instance_id=next(ids))
    p.tag("s480", s480, instance_id=next(ids))
    p.tag("hid1", hid, instance_id=next(ids))
    p.tag("timer1", timer, instance_id=next(ids))
    p.tag("packet1", packet, instance_id=320)
    p.tag("logline_ary", logline, (2,), instance_id=321)
    p.tag("notstr1", notstr, instance_id=322)
    p.tag("pholder1", holder, instance_id=323)
    for i, td_ in enumerate(hl):
        p.tag("hl_%s" % td_.name.lower(), td_, instance_id=300 + i)
    p.tag("aoi1", aoi, instance_id=next(ids))
    p.tag("plain", "DINT", instance_id=next(ids))
    p.tag("plain2", "DINT", instance_id=next(ids))
    p.tag("plain3", "INT", instance_id=next(ids))
    p.tag("ro_tag", "DINT", instance_id=next(ids), access=2)
    p.tag("none_tag", "DINT", instance_id=next(ids), access=3)
    p.tag("big_int", "INT", (2100,), instance_id=next(ids))  # 4200 bytes: fragmented at both connection sizes
    # string types of the SAME structure size (LEN + data padded to 4 bytes) and different capacities
    s10 = p.add_type(string_type("STR10", 0x2A4, 10, handle=0x9A04))
    s12 = p.add_type(string_type("STR12", 0x2A5, 12, handle=0x9A05))
    s9 = p.add_type(string_type("STR9", 0x2A6, 9, handle=0x9A06))
    p.tag("s12", s12, instance_id=next(ids))
    p.tag("s10", s10, instance_id=next(ids))
    p.tag("s9_ary", s9, (2,), instance_id=next(ids))
    if not reduced:
        p.tag("outer_ary", outer, (2,), instance_id=next(ids))
        p.tag("inner_2d", inner, (2, 2), instance_id=next(ids))
        p.tag("s480_ary", s480, (10,), instance_id=next(ids))
    return p


def p3_scopes():
    """Two programs with routines, tasks, Map:/Cxn: symbols, module I/O tags, __ symbols, system bit, aliases, external access."""
    p = Project("P3")
    T = std_types(p)
    udt = p.add_type(layout("ScopeUDT", 0x311, 0xC001, [("a", "DINT", 0), ("f", "BOOL", 0), ("s", T["STRING"], 0)]))
    modc = p.add_type(layout("AB:Embedded_IQ16F:C:0", 0x312, 0xC002, [("Filter", "SINT", 4)]))
    modi = p.add_type(layout("AB:Embedded_IQ16F:I:0", 0x313, 0xC003, [("Fault", "DINT", 0), ("Data", "INT", 0)]))
    ids = iter(range(1, 500))
    p.tag("ctl_dint", "DINT", instance_id=next(ids))
    p.add(TagDef("Program:MainProgram", None, (), next(ids), kind="program", symbol_type=0x1068))
    p.tag("ctl_udt", udt, instance_id=next(ids))
    p.add(TagDef("Task:MainTask", None, (), next(ids), kind="task", symbol_type=0x1070))
    p.add(TagDef("Map:Local", None, (), next(ids), kind="map", symbol_type=0x1069))
    p.tag("ro_tag", "INT", instance_id=next(ids), access=2)
    p.tag("none_tag", "DINT", instance_id=next(ids), access=3)
    p.add(TagDef("Cxn:Standard:a1b2", None, (), next(ids), kind="cxn", symbol_type=0x106A))
    p.tag("alias_tag", "DINT", instance_id=next(ids), alias=True)
    p.tag("__system_thing", "DINT", instance_id=next(ids), kind="system")
    p.add(TagDef("sysbit_tag", "DINT", (), next(ids), kind="system", symbol_type=0x10C4))
    p.add(TagDef("Local:1:C", modc, (), next(ids), kind="module"))
    p.add(TagDef("Local:1:I", modi, (), next(ids), kind="module"))
    p.add(TagDef("Rack:I", modi, (), next(ids), kind="module"))
    # numbered and safety connections of a module
    p.add(TagDef("Enc:I1", modi, (), next(ids), kind="module"))
    p.add(TagDef("Flex:2:O2", modc, (), next(ids), kind="module"))
    p.add(TagDef("Guard:3:SI", modi, (), next(ids), kind="module"))
    p.add(TagDef("Guard:3:SO", modc, (), next(ids), kind="module"))
    # junk that *looks* like module I/O: double-underscore names and system-flagged symbols with a connection suffix
    p.add(TagDef("__DEFVAL_00002A41:C", modc, (), next(ids), kind="module"))
    p.add(TagDef("Enet:2:S", modi, (), next(ids), kind="module", symbol_type=0x9000 | 0x313))
    p.add(TagDef("__Prm_0004:O", modc, (), 90, scope="MainProgram", kind="module"))
    p.add(TagDef("Program:Second_Prog", None, (), next(ids), kind="program", symbol_type=0x1068))
    p.tag("ctl_ary", "INT", (10,), instance_id=next(ids))
    p.add(TagDef("Task:Periodic", None, (), next(ids), kind="task", symbol_type=0x1070))
    p.tag("zz_last", "SINT", instance_id=next(ids))
    pid = iter(range(1, 100))
    p.tag("p_dint", "DINT", scope="MainProgram", instance_id=next(pid))
    p.add(TagDef("Routine:MainRoutine", None, (), next(pid), scope="MainProgram", kind="routine", symbol_type=0x106D))
    p.tag("p_udt", udt, scope="MainProgram", instance_id=next(pid))
    p.tag("p_ary", "REAL", (4,), scope="MainProgram", instance_id=next(pid))
    p.add(TagDef("Routine:Sub", None, (), next(pid), scope="MainProgram", kind="routine", symbol_type=0x106D))
    p.tag("p_bools", "DWORD", (2,), scope="MainProgram", instance_id=next(pid))
    p.tag("ctl_dint", "INT", scope="Second_Prog", instance_id=1)  # same name as a controller tag, different type
    p.add(TagDef("Routine:Only", None, (), 2, scope="Second_Prog", kind="routine", symbol_type=0x106D))
    p.tag("p2_str", T["STRING"], scope="Second_Prog", instance_id=3)
    # a program without any symbol (freshly created / spare): its symbol list is an empty, successful reply
    p.add(TagDef("Program:Spare", None, (), next(ids), kind="program", symbol_type=0x1068))
    p.programs["Spare"] = []
    # program tags shadowing controller tags of the same name
    p.tag("zz_last", "DINT", scope="MainProgram", instance_id=next(pid))
    # a program whose name has the full 40 characters a name may have ("Program:" comes on top of that in the scope segment)
    long_name = "Line_7_Palletizer_Cell_B_Sequencer_v2_OK"
    assert len(long_name) == 40
    p.add(TagDef("Program:" + long_name, None, (), next(ids), kind="program", symbol_type=0x1068))
    p.tag("lp_count", "DINT", scope=long_name, instance_id=1)
    p.add(TagDef("Routine:Main", None, (), 2, scope=long_name, kind="routine", symbol_type=0x106D))
    return p


def p4_scale(n=260):
    """Several hundred tags so that symbol pages, multi-service groups and fragment chains overflow."""
    p = Project("P4")
    T = std_types(p)
    u = p.add_type(layout("ScaleUDT", 0x321, 0xD001, [("a", "DINT", 0), ("b", "INT", 0), ("c", "BOOL", 0), ("d", "REAL", 4)]))
    for i in range(n):
        kind = i % 5
        name = f"tag_{i:03d}_{'x' * (i % 17)}"
        if kind == 0:
            p.tag(name, "DINT", instance_id=100 + 3 * i)
        elif kind == 1:
            p.tag(name, "INT", (20,), instance_id=100 + 3 * i)
        elif kind == 2:
            p.tag(name, u, instance_id=100 + 3 * i)
        elif kind == 3:
            p.tag(name, T["STRING"], instance_id=100 + 3 * i)
        else:
            p.tag(name, "REAL", (50,), instance_id=100 + 3 * i)
    # identifiers at their boundaries: template instance ids whose low byte is an atomic type code (0xC4 DINT, 0xCA REAL, 0xC1 BOOL, 0x00),
    # symbol instance ids at the 8/16/32-bit segment boundaries
    t1 = p.add_type(layout("IdC4UDT", 0x1C4, 0xD0C4, [("v", "DINT", 0), ("w", "INT", 0)]))
    t2 = p.add_type(layout("IdCAUDT", 0x2CA, 0xD0CA, [("r", "REAL", 0), ("k", "BOOL", 0)]))
    # (the first and the last template id of the user range; their members may carry any name, also those that predefined types hide)
    t3 = p.add_type(layout("Id00UDT", 0x100, 0xD000, [("z", "SINT", 0), ("y", "DINT", 0), ("CTL", "INT", 0), ("Control", "DINT", 0)]))
    t5 = p.add_type(layout("IdEFFUDT", 0xEFF, 0xD0EF, [("Control", "DINT", 0), ("CTL", "INT", 0), ("x", "SINT", 0)]))
    t6 = p.add_type(layout("IdEFEUDT", 0xEFE, 0xD0EE, [("CTL", "DINT", 0), ("x", "BOOL", 0), ("Control", "REAL", 0)]))
    t4 = p.add_type(layout("IdC1UDT", 0xFC1, 0xD0C1, [("q", "INT", 3)]))
    par = p.add_type(layout("IdsUDT", 0x322, 0xD002, [("m1", t1, 0), ("m2", t2, 2), ("m3", t3, 0), ("m4", t4, 0), ("n", "DINT", 0)]))
    # two different types reporting the same structure handle (the 16-bit handle is a checksum, not an identity), also nested and as strings
    tw1 = p.add_type(layout("TwinMotor", 0x323, 0xD100, [("speed", "DINT", 0), ("run", "BOOL", 0), ("amps", "REAL", 0)]))
    tw2 = p.add_type(layout("TwinPump", 0x324, 0xD100, [("flow", "REAL", 0), ("level", "INT", 3), ("ok", "BOOL", 0), ("fault", "BOOL", 0)]))
    ts1 = p.add_type(string_type("TWINSTR20", 0x2B1, 20, handle=0x9B00))
    ts2 = p.add_type(string_type("TWINSTR12", 0x2B2, 12, handle=0x9B00))
    twp = p.add_type(layout("TwinHolder", 0x325, 0xD101, [("p", tw2, 0), ("m", tw1, 0), ("s12", ts2, 0), ("s20", ts1, 0)]))
    p.tag("twin_motor", tw1, instance_id=0x5001)
    p.tag("twin_pump", tw2, instance_id=0x5002)
    p.tag("twin_s20", ts1, instance_id=0x5003)
    p.tag("twin_s12", ts2, instance_id=0x5004)
    p.tag("twin_holder", twp, instance_id=0x5005)
    # a structure larger than 64 KiB: member offsets beyond 16 bits
    huge = p.add_type(layout("HugeUDT", 0x326, 0xD200, [("head", "DINT", 0), ("blob", "SINT", 40000), ("blob2", "INT", 14000), ("after", "DINT", 0), ("flag", "BOOL", 0), ("flag2", "BOOL", 0), ("r", "REAL", 0), ("tail", "INT", 3)]))
    p.tag("huge1", huge, instance_id=0x5010)
    p.tag("ids_parent", par, instance_id=0xFF)
    p.tag("ids_c4", t1, instance_id=0x101)  # 0x100 is taken by tag_052
    p.tag("ids_ca_ary", t2, (2,), instance_id=0xFFFF)
    p.tag("ids_00", t3, instance_id=0x10000)
    p.tag("ids_c1", t4, instance_id=0x12345678)
    p.tag("ids_dint", "DINT", instance_id=0xFFFFFFFE)
    # types that are only ever reached as MEMBERS (scalar, small array, array of 300) of another type: a user type whose members carry
    # names that predefined types hide, and a header-less predefined type
    pdc = p.add_type(TypeDef("COUNTER", 0xF82, 0x0F82, 12, [Member("CTL", "DINT", 0), Member("PRE", "DINT", 4), Member("ACC", "DINT", 8),
                                                         Member("CU", "BOOL", 3, 0, 7), Member("DN", "BOOL", 3, 0, 5)], predefined=True, first_member_is_name=True))
    ctl_in = p.add_type(layout("CtlInner", 0x2E0, 0xD0E0, [("Control", "DINT", 0), ("CTL", "INT", 0), ("v", "SINT", 0)]))
    ctl_in2 = p.add_type(layout("CtlInner2", 0x2E2, 0xD0E2, [("CTL", "REAL", 0), ("w", "INT", 0)]))
    ctl_out = p.add_type(layout("CtlOuter", 0x2E1, 0xD0E1, [("pre", "INT", 0), ("inner", ctl_in, 0), ("bank", pdc, 300), ("arr", ctl_in2, 2)]))
    p.tag("ctl_outer", ctl_out, instance_id=2)
    p.tag("ids_eff", t5, instance_id=0x5020)
    p.tag("ids_efe_ary", t6, (2,), instance_id=0x5021)
    p.tag("p_only", "DINT", scope="Prog", instance_id=1)
    from .projects import TagDef as TD
    p.add(TD("Program:Prog", None, (), 50, kind="program", symbol_type=0x1068))
    return p


def p5_ladder(sizes, elem="SINT", struct_size=None, name_len=3, string_cap=None):
    """One tag per byte size (C04): tag of `n` bytes for every n in sizes."""
    p = Project("P5")
    u = None
    if string_cap:
        u = p.add_type(string_type("STRING" if string_cap == 82 else "STR%d" % string_cap, 0xFCE if string_cap == 82 else 0x2F0 + string_cap % 13, string_cap))
        struct_size = u.size
    elif struct_size:
        fields = [("m%d" % i, "DINT", 0) for i in range(struct_size // 4)]
        u = p.add_type(layout("Blk%d" % struct_size, 0x331, 0xE001, fields))
    esz = struct_size or {"SINT": 1, "INT": 2, "DINT": 4, "LINT": 8}[elem]
    i = 0
    for n in sizes:
        if n % esz:
            continue
        nm = ("t%d" % n).ljust(name_len, "_")
        p.tag(nm, u or elem, (n // esz,), instance_id=0x100 + i)
        i += 1
    p.tag("small", "DINT", instance_id=7)
    return p


BUILDERS = {"P1": p1_atoms, "P2": p2_structs, "P3": p3_scopes, "P4": p4_scale}


def build(name, image=0, **kw):
    if name == "P0":
        from . import p0

        p = p0.load_cached()
        if image != 0:  # image 0 = the memory recorded in the L5X
            fill_image(p, image)
        return p
    p = BUILDERS[name](**kw)
    check_project(p)
    fill_image(p, image)
    return p


def check_project(p):
    """A project must be something a controller can hold: unique names and instance ids per scope, unique template ids."""
    for scope, syms in [(None, p.symbols)] + list(p.programs.items()):
        names, ids = {}, {}
        for t in syms:
            if t.name in names or t.instance_id in ids:
                raise AssertionError(f"reference project {p.name}: scope {scope!r} holds {t.name!r} (instance {t.instance_id}) twice / id clash with {ids.get(t.instance_id) or names.get(t.name)!r}")
            names[t.name] = t.name
            ids[t.instance_id] = t.name

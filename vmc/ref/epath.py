"""Independent strict parser/builder for CIP EPATHs (CIP Vol 1 App. C-1; 1756-PM020 ch. 2).

Imports nothing from pycomm3.  Segments are plain tuples:

  ('class'|'instance'|'member'|'cpoint'|'attribute'|'special'|'service', value)   logical segment
  ('symbol', name)                 ANSI extended symbol segment (0x91)
  ('port', port_number, link)      port segment, link = bytes
  ('data', bytes)                  simple data segment (0x80)
"""

LOGICAL = {0: "class", 1: "instance", 2: "member", 3: "cpoint", 4: "attribute", 5: "special", 6: "service"}
LOGICAL_CODE = {v: k for k, v in LOGICAL.items()}


class EPathError(Exception):
    pass


def parse(path, padded=True):
    """Parse path bytes (without the leading word count) into segments, strictly."""
    segs = []
    i = 0
    n = len(path)
    if padded and n % 2:
        raise EPathError(f"padded path of odd length {n}")
    while i < n:
        b = path[i]
        stype = b >> 5
        if stype == 0:  # port segment
            ext = bool(b & 0x10)
            port = b & 0x0F
            if port == 0:
                raise EPathError("port identifier 0 is reserved")
            j = i + 1
            if ext:
                if j >= n:
                    raise EPathError("truncated port segment")
                ln = path[j]
                j += 1
                if ln < 2:
                    raise EPathError("extended link address flag with a size below 2")
            else:
                ln = 1
            if port == 15:
                if j + 2 > n:
                    raise EPathError("truncated extended port number")
                port = int.from_bytes(path[j : j + 2], "little")
                j += 2
            link = bytes(path[j : j + ln])
            if len(link) != ln:
                raise EPathError("truncated link address")
            j += ln
            if (j - i) % 2:
                if j >= n or path[j] != 0:
                    raise EPathError("port segment not padded to an even length with 0x00")
                j += 1
            segs.append(("port", port, link))
            i = j
        elif stype == 1:  # logical segment
            ltype = (b >> 2) & 7
            fmt = b & 3
            if ltype not in LOGICAL:
                raise EPathError(f"reserved logical type {ltype}")
            if fmt == 3:
                raise EPathError(f"reserved logical format 0b11 in segment byte {b:#04x}")
            width = (1, 2, 4)[fmt]
            j = i + 1
            if padded and width > 1:
                if j >= n or path[j] != 0:
                    raise EPathError("missing pad byte after 16/32-bit logical segment byte")
                j += 1
            val = path[j : j + width]
            if len(val) != width:
                raise EPathError("truncated logical segment")
            segs.append((LOGICAL[ltype], int.from_bytes(val, "little")))
            i = j + width
        elif stype == 4:  # data segment
            if b == 0x91:
                if i + 1 >= n:
                    raise EPathError("truncated symbol segment")
                ln = path[i + 1]
                data = bytes(path[i + 2 : i + 2 + ln])
                if len(data) != ln:
                    raise EPathError("truncated symbol")
                if ln == 0:
                    raise EPathError("empty symbol")
                j = i + 2 + ln
                if ln % 2:
                    if j >= n or path[j] != 0:
                        raise EPathError("odd-length symbol not padded with 0x00")
                    j += 1
                try:
                    name = data.decode("ascii")
                except UnicodeDecodeError:
                    raise EPathError("non-ASCII symbol")
                segs.append(("symbol", name))
                i = j
            elif b == 0x80:
                if i + 1 >= n:
                    raise EPathError("truncated data segment")
                words = path[i + 1]
                data = bytes(path[i + 2 : i + 2 + 2 * words])
                if len(data) != 2 * words:
                    raise EPathError("truncated data segment")
                segs.append(("data", data))
                i += 2 + 2 * words
            else:
                raise EPathError(f"unknown data segment sub-type {b:#04x}")
        else:
            raise EPathError(f"unsupported segment type in byte {b:#04x}")
    return segs


def parse_counted(buf, pad_after_count=False):
    """`count(1) [pad(1)] path` where count = path length in 16-bit words; nothing may trail."""
    if not buf:
        raise EPathError("empty")
    words = buf[0]
    body = buf[2:] if pad_after_count else buf[1:]
    if pad_after_count and (len(buf) < 2 or buf[1] != 0):
        raise EPathError("reserved byte after the path size is not 0")
    if len(body) != 2 * words:
        raise EPathError(f"word count {words} but {len(body)} path bytes")
    return parse(body, padded=True)


def take_counted(buf, pos=0):
    """Parse `count path` at buf[pos:], return (segments, raw path bytes, new pos)."""
    if pos >= len(buf):
        raise EPathError("no path size")
    words = buf[pos]
    raw = bytes(buf[pos + 1 : pos + 1 + 2 * words])
    if len(raw) != 2 * words:
        raise EPathError("path shorter than its word count")
    return parse(raw, padded=True), raw, pos + 1 + 2 * words


# ---------------------------------------------------------------- builders (minimal widths)
def logical(kind, value, padded=True):
    code = LOGICAL_CODE[kind]
    if value <= 0xFF:
        return bytes([0x20 | code << 2, value])
    if value <= 0xFFFF:
        return bytes([0x20 | code << 2 | 1]) + (b"\x00" if padded else b"") + value.to_bytes(2, "little")
    return bytes([0x20 | code << 2 | 2]) + (b"\x00" if padded else b"") + value.to_bytes(4, "little")


def symbol(name):
    d = name.encode("ascii")
    return b"\x91" + bytes([len(d)]) + d + (b"\x00" if len(d) % 2 else b"")


def port(port_no, link):
    ext = b""
    if port_no > 14:  # extended port identifier: field = 15, 16-bit number after the optional link size
        ext = port_no.to_bytes(2, "little")
        port_no = 15
    if len(link) == 1:
        out = bytes([port_no]) + ext + link
    else:
        out = bytes([0x10 | port_no, len(link)]) + ext + link
    if len(out) % 2:
        out += b"\x00"
    return out


def build(segs):
    out = b""
    for s in segs:
        if s[0] == "symbol":
            out += symbol(s[1])
        elif s[0] == "port":
            out += port(s[1], s[2])
        else:
            out += logical(s[0], s[1])
    return out


# ---------------------------------------------------------------- tag-string grammar (1756-PM020)
def tag_segments(tag, instance_id=None):
    """Reference expansion of a tag string into the intended segment sequence.

    tag: 'Program:P.name[1,2].member[3].sub' (no bit suffix, no {n}); when instance_id is
    given the base tag (not program scoped) is addressed by symbol instance.
    """
    parts = tag.split(".")
    segs = []
    k = 0
    if parts[0].startswith("Program:"):
        segs.append(("symbol", parts[0]))
        k = 1
    first = True
    for p in parts[k:]:
        name, idx = p, []
        if "[" in p:
            name = p[: p.index("[")]
            inner = p[p.index("[") + 1 : p.rindex("]")]
            idx = [int(x) for x in inner.split(",")]
        if first and instance_id is not None and k == 0:
            segs += [("class", 0x6B), ("instance", instance_id)]
        else:
            segs.append(("symbol", name))
        first = False
        segs += [("member", i) for i in idx]
    return segs

"""Reference EtherNet/IP target: sessions, UCMM, Unconnected Send, Forward Open/Close, class-3 connections.

Written from CIP Vol 1 ch. 3 and Vol 2 ch. 2 (see DESIGN.md Appendix A); imports nothing from
pycomm3.  The target is *strict* and it *records, never raises*: protocol violations by the
client are appended to ``events`` as (tag, detail) and answered the way the specification says
(an encapsulation or CIP error), because anything raised inside ``sock.send`` would only be
wrapped into CommError by the driver.

Event tags are prefixed with the property they bear on:  C04/.. C09/.. C10/.. C11/.. C17/..
"""
import struct

from . import epath as E
from . import wire as W


class Policy:
    def __init__(self, session="accept", large_fo="accept", std_fo="accept", fclose="accept",
                 session_handles=None, conn_ids=None, max_std_size=511, max_large_size=4002, fo_refuse_first=0):
        self.session = session  # 'accept' | 'refuse' | 'refuse-with-handle'
        self.large_fo = large_fo  # 'accept' | 'refuse08' (service not supported) | 'refuse0109' (invalid size) | 'refuse08bare' / 'refuse0109bare' (0 / 1 data bytes in the refusal)
        self.std_fo = std_fo  # 'accept' | 'refuse'
        self.fclose = fclose  # 'accept' | 'refuse'
        self.session_handles = list(session_handles or [0x01020304, 0x8A0B0C0D, 0x11223344, 0xFFFFFFFE, 0x99AABBCC])
        self.conn_ids = list(conn_ids or [0x00C0FFEE, 0x8BADF00D, 0x12345678, 0xFF1E2D3C, 0x7A7B7C7D])
        self.max_std_size = max_std_size
        self.max_large_size = max_large_size
        self.fo_refuse_first = fo_refuse_first  # the first k Forward Opens (of either kind) are refused (0x01/0x0113 out of connections), later ones follow large_fo/std_fo

    def key(self):
        return (self.session, self.large_fo, self.std_fo, self.fclose)


class Conn:
    __slots__ = ("session", "o2t", "t2o", "serial", "vendor", "orig_serial", "size", "large", "route", "last_seq",
                 "last_reply", "messages", "seqs", "raw_triple")

    def __init__(self, **kw):
        for k, v in kw.items():
            setattr(self, k, v)
        self.last_seq = None
        self.last_reply = None
        self.messages = 0
        self.seqs = None  # list of sequence counts when the target is told to keep them


class Endpoint:
    """Target side of one TCP connection: its own receive buffer and (at most one) session."""

    def __init__(self, target, no):
        self.target = target
        self.no = no
        self.buf = bytearray()
        self.session = None
        self.closed = False  # closed by the client
        self.closed_by_peer = False  # closed by the target (after UnRegisterSession)
        self.register_reply_lost = False  # the RegisterSession reply never reached the client: to the client this is still "before registration"

    def note_lost(self, data):
        """The network lost these reply bytes (fault injection)."""
        if data[:2] == b"\x65\x00":
            self.register_reply_lost = True

    def feed(self, data):
        """Bytes from the client; returns the bytes the target sends back."""
        t = self.target
        self.buf += data
        out = b""
        while True:
            n = W.frame_len(self.buf)
            if n is None or len(self.buf) < n:
                break
            raw = bytes(self.buf[:n])
            del self.buf[:n]
            t.ep = self
            out += t._frame(raw)
        return out

    def close(self):
        """The client closed the TCP connection: its session dies with it."""
        self.closed = True
        self.target._drop_session(self.session, graceful=False)
        self.session = None
        self.buf.clear()


class Target:
    def __init__(self, device=None, policy=None, identity=None, keep_frames=False, keep_seqs=False, keep_cip=True):
        self.device = device
        self.policy = policy or Policy()
        self.identity = dict(identity or W.DEFAULT_IDENTITY)
        self.keep_frames = keep_frames
        self.keep_seqs = keep_seqs
        self.keep_cip = keep_cip
        self.events = []  # (tag, detail): protocol violations by the client
        self.frames = []  # received Frames (when keep_frames)
        self.cip_log = []  # dicts describing every CIP request that reached an object
        self.enc_log = []  # encapsulation commands in order of arrival
        self.sessions = {}  # handle -> {'tcp': n}
        self.connections = {}  # o2t id -> Conn
        self.orphaned = []  # connections whose session went away without a Forward Close
        self.refused = []  # ('large'|'std', status) for each refused Forward Open
        self.fo_log = []  # ('large'|'std', size, accepted)
        self.ever_granted = set()  # session handles that were granted at least one connection id
        self.endpoints = []
        self.tcp_no = 0
        self.ep = None  # endpoint whose frame is being processed
        self._sess_i = 0
        self._conn_i = 0
        self.frames_seen = 0
        self.connected_msgs = 0
        self.reply_hook = None  # callable(frame, reply_bytes) -> reply_bytes (fault / status injection)
        if device is not None and hasattr(device, "attach"):
            device.attach(self)

    # ------------------------------------------------------------------ monitors
    def event(self, tag, detail):
        self.events.append((tag, detail))

    def events_for(self, prefix):
        return [e for e in self.events if e[0].startswith(prefix)]

    # ------------------------------------------------------------------ TCP endpoints
    def accept(self, addr):
        """A client connected: returns the endpoint object for that TCP connection."""
        self.tcp_no += 1
        ep = Endpoint(self, self.tcp_no)
        self.endpoints.append(ep)
        return ep

    @property
    def tcp_is_open(self):
        return any(not ep.closed for ep in self.endpoints)

    def _drop_session(self, handle, graceful):
        if handle is None or handle not in self.sessions:
            return
        del self.sessions[handle]
        for cid in [c for c, conn in self.connections.items() if conn.session == handle]:
            self.orphaned.append(self.connections.pop(cid))

    def udp(self, data, addr, bound):
        """A datagram to port 44818 (ListIdentity broadcast)."""
        try:
            fr = W.parse_frame(data)
        except W.WireError as e:
            self.event("C11/udp-frame", str(e))
            return []
        self.enc_log.append(("udp", fr.command))
        if fr.command != W.CMD_LIST_IDENTITY:
            return []
        self._check_header(fr, before_session=True)
        if fr.length != 0:
            self.event("C11/list-identity-length", f"ListIdentity request with {fr.length} data bytes")
        replies = [W.build_frame(W.CMD_LIST_IDENTITY, 0, W.list_identity_item(idn), context=fr.context) for idn in self.udp_identities()]
        return replies

    def udp_identities(self):
        return [self.identity]

    # ------------------------------------------------------------------ encapsulation layer
    def _check_header(self, fr, before_session=False):
        if fr.status != 0:
            self.event("C11/header-status", f"request with status {fr.status:#x}")
        if fr.options != 0:
            self.event("C11/header-options", f"request with options {fr.options:#x}")
        if len(fr.context) != 8:
            self.event("C11/header-context", "sender context is not 8 bytes")

    def _err(self, fr, status, session=None):
        return W.build_frame(fr.command, fr.session if session is None else session, b"", status=status, context=fr.context)

    def _frame(self, raw):
        self.frames_seen += 1
        try:
            fr = W.parse_frame(raw)
        except W.WireError as e:  # cannot happen with frame_len slicing, kept for safety
            self.event("C11/frame", str(e))
            return b""
        if self.keep_frames:
            self.frames.append(fr)
        self.enc_log.append(("tcp", fr.command))
        self._check_header(fr)
        cmd = fr.command
        if cmd == W.CMD_REGISTER:
            reply = self._register(fr)
        elif cmd == W.CMD_UNREGISTER:
            reply = self._unregister(fr)
        elif cmd == W.CMD_LIST_IDENTITY:
            if fr.length != 0:
                self.event("C11/list-identity-length", f"ListIdentity request with {fr.length} data bytes")
            if fr.session not in (0, self.ep.session):
                self.event("C11/session-handle", f"ListIdentity with session {fr.session:#x}, granted {self.ep.session!r}")
            reply = W.build_frame(cmd, fr.session, W.list_identity_item(self.identity), context=fr.context)
        elif cmd in (W.CMD_RRDATA, W.CMD_UNITDATA):
            reply = self._data(fr)
        elif cmd == W.CMD_NOP:
            reply = b""
        else:
            self.event("C11/command", f"unknown encapsulation command {cmd:#06x}")
            reply = self._err(fr, 0x0001)
        if self.reply_hook is not None and reply:
            reply = self.reply_hook(fr, reply)
        return reply

    def _register(self, fr):
        if fr.session != 0:
            self.event("C11/session-handle", f"RegisterSession with non-zero session handle {fr.session:#x}")
        if fr.length != 4:
            self.event("C11/register-length", f"RegisterSession with {fr.length} data bytes")
            return self._err(fr, 0x0065)
        version, flags = struct.unpack("<HH", fr.body)
        if version != 1 or flags != 0:
            self.event("C11/register-body", f"RegisterSession version {version} flags {flags:#x}")
            return self._err(fr, 0x0069)
        if self.ep.session is not None:
            self.event("C10/double-register", "RegisterSession on a TCP connection that already has a session")
            return self._err(fr, 0x0001)
        if self.policy.session == "refuse-with-handle":
            # a refusal (insufficient memory) whose header nevertheless carries a non-zero session field; nothing is granted
            return W.build_frame(W.CMD_REGISTER, 0x5A5A0001, fr.body, status=0x0002, context=fr.context)
        if self.policy.session != "accept":
            return self._err(fr, 0x0002)
        handle = self.policy.session_handles[self._sess_i % len(self.policy.session_handles)]
        self._sess_i += 1
        self.sessions[handle] = {"tcp": self.ep.no}
        self.ep.session = handle
        return W.build_frame(W.CMD_REGISTER, handle, fr.body, context=fr.context)

    def _unregister(self, fr):
        if fr.length != 0:
            self.event("C11/unregister-length", f"UnRegisterSession with {fr.length} data bytes")
        if fr.session != self.ep.session or fr.session not in self.sessions:
            self.event("C11/session-handle", f"UnRegisterSession for session {fr.session:#x}, granted {self.ep.session!r}")
            return b""
        self._drop_session(fr.session, graceful=True)
        self.ep.session = None
        self.ep.closed_by_peer = True  # the target closes the TCP connection after UnRegisterSession
        return b""

    def _data(self, fr):
        connected = fr.command == W.CMD_UNITDATA
        if fr.session == 0 or fr.session not in self.sessions or fr.session != self.ep.session:
            if connected:
                self.event("C10/I1/unitdata-without-session", f"SendUnitData with session {fr.session:#x}; registered: {sorted(self.sessions)}")
            elif not (fr.session == 0 and (self.ep.session is None or self.ep.register_reply_lost)):
                # handle 0 while no session has been granted on this TCP connection is "before registration"
                self.event("C11/session-handle", f"SendRRData with session {fr.session:#x}; granted on this TCP connection: {self.ep.session!r}")
            if not connected and len(fr.body) > 22 and fr.body[16] in (0x54, 0x5B) and fr.body[17:22] == b"\x02\x20\x06\x24\x01":
                self.event("C10/I1/forward-open-without-session", f"Forward Open sent with session handle {fr.session:#x} although no session is registered")
            return self._err(fr, 0x0064)
        try:
            iface, timeout, items = W.parse_cpf(fr.body)
        except W.WireError as e:
            self.event("C11/cpf", str(e))
            return self._err(fr, 0x0003)
        if iface != 0:
            self.event("C11/cpf-interface", f"interface handle {iface:#x}")
        if len(items) != 2:
            self.event("C11/cpf-item-count", f"{len(items)} items")
            return self._err(fr, 0x0003)
        (at, ad), (dt, dd) = items
        if not connected:
            if at != W.ITEM_NULL or ad != b"":
                self.event("C11/cpf-address-item", f"SendRRData address item type {at:#06x} length {len(ad)}")
                return self._err(fr, 0x0003)
            if dt != W.ITEM_UNCONNECTED_DATA:
                self.event("C11/cpf-data-item", f"SendRRData data item type {dt:#06x}")
                return self._err(fr, 0x0003)
            rep = self._ucmm(dd, fr)
            if rep is None:
                return b""
            body = W.build_cpf([(W.ITEM_NULL, b""), (W.ITEM_UNCONNECTED_DATA, rep)], timeout=0)
            return W.build_frame(fr.command, fr.session, body, context=fr.context)
        # connected
        if not any(c.session == fr.session for c in self.connections.values()):
            self.event("C10/I1/unitdata-without-connection", f"SendUnitData although no connection is open for session {fr.session:#x} (address item {ad.hex()!r})")
            if fr.session not in self.ever_granted:
                # not a stale id either: this session was never granted any connection id, the address item cannot hold "the target's connection id"
                self.event("C11/connection-id", f"SendUnitData with address item {ad.hex()!r} although no connection id was ever granted to session {fr.session:#x}")
        if at != W.ITEM_CONNECTED_ADDR or len(ad) != 4:
            self.event("C11/cpf-address-item", f"SendUnitData address item type {at:#06x} length {len(ad)}")
            return self._err(fr, 0x0003)
        if dt != W.ITEM_CONNECTED_DATA:
            self.event("C11/cpf-data-item", f"SendUnitData data item type {dt:#06x}")
            return self._err(fr, 0x0003)
        cid = struct.unpack("<I", ad)[0]
        conn = self.connections.get(cid)
        if conn is None or conn.session != fr.session:
            mine = [c.o2t for c in self.connections.values() if c.session == fr.session]
            if mine:
                self.event("C10/I1/unitdata-without-connection", f"SendUnitData for connection id {cid:#x}; open: {[hex(c) for c in self.connections]}")
                # the client holds an open connection on this session, yet addresses another id: not "the target's connection id"
                self.event("C11/connection-id", f"connection address item holds {cid:#x}; the connection granted to this session is {[hex(c) for c in mine]}")
            return b""  # a real target silently discards it
        if len(dd) < 2:
            self.event("C11/connected-data", "connected data item shorter than the sequence count")
            return b""
        self.connected_msgs += 1
        conn.messages += 1
        oversize = len(dd) > conn.size
        if oversize:
            self.event("C04/request-too-large", f"connected data item of {len(dd)} bytes on a connection of size {conn.size}")
        seq = struct.unpack_from("<H", dd, 0)[0]
        if conn.seqs is not None:
            conn.seqs.append(seq)
        if conn.last_seq is not None and seq == conn.last_seq:
            self.event("C17/duplicate-sequence", f"sequence count {seq} repeated on connection {cid:#x} (message #{conn.messages})")
            rep = conn.last_reply  # class-3 transport: duplicate is not delivered, last response is re-sent
        else:
            conn.last_seq = seq
            if oversize:
                # more than the connection was opened for: nothing of it is executed, the request is refused ("too much data")
                rep = W.build_mr_reply(dd[2] if len(dd) > 2 else 0, 0x15)
            else:
                rep = self._connected(dd[2:], conn, fr)
            if len(rep) + 2 > conn.size:
                self.event("C04/reply-too-large", f"reply of {len(rep) + 2} bytes solicited on a connection of size {conn.size}")
                svc = dd[2] if len(dd) > 2 else 0
                rep = W.build_mr_reply(svc, 0x11)
            conn.last_reply = rep
        body = W.build_cpf([(W.ITEM_CONNECTED_ADDR, struct.pack("<I", conn.t2o)), (W.ITEM_CONNECTED_DATA, dd[:2] + rep)])
        return W.build_frame(fr.command, fr.session, body, context=fr.context)

    # ------------------------------------------------------------------ message routing
    def _parse(self, data, transport):
        try:
            return W.parse_mr_request(data)
        except (W.WireError, E.EPathError) as e:
            self.event("C09/request-path", f"{transport}: {e} in {bytes(data[:40]).hex()}")
            return None

    def _log(self, req, transport, route=None, conn=None):
        if self.keep_cip:
            self.cip_log.append({"transport": transport, "service": req.service, "path": req.path, "raw_path": req.raw_path,
                                 "data": req.data, "route": route, "conn": conn.o2t if conn else None})

    def _connected(self, data, conn, fr):
        req = self._parse(data, "connected")
        if req is None:
            return W.build_mr_reply(data[0] if data else 0, 0x04)
        self._log(req, "connected", conn=conn)
        if self.device is None:
            return W.build_mr_reply(req.service, 0x08)
        return self.device.handle(req, {"transport": "connected", "conn": conn, "max_reply": conn.size - 2, "target": self, "route": conn.route})

    def _ucmm(self, data, fr):
        req = self._parse(data, "ucmm")
        if req is None:
            return W.build_mr_reply(data[0] if data else 0, 0x04)
        if req.path == [("class", 6), ("instance", 1)]:
            if req.service in (0x54, 0x5B):
                return self._forward_open(req, fr)
            if req.service == 0x4E:
                return self._forward_close(req, fr)
            if req.service == 0x52:
                return self._unconnected_send(req, fr)
        self._log(req, "ucmm")
        if self.device is None:
            return W.build_mr_reply(req.service, 0x08)
        return self.device.handle(req, {"transport": "ucmm", "conn": None, "max_reply": 504, "target": self, "route": None})

    # ------------------------------------------------------------------ connection manager
    def _route_and_tail(self, segs):
        route = [s for s in segs if s[0] == "port"]
        tail = [s for s in segs if s[0] != "port"]
        if segs[: len(route)] != route:
            return None, None
        return route, tail

    def _forward_open(self, req, fr):
        large = req.service == 0x5B
        d = req.data
        fixed = 40 if large else 36
        kind = "large" if large else "std"
        if len(d) < fixed + 1:
            self.event("C10/forward-open-format", f"{kind} Forward Open with {len(d)} data bytes")
            return W.build_mr_reply(req.service, 0x13)
        o2t_req, t2o_req, serial, vendor, orig_serial = struct.unpack_from("<IIHHI", d, 2)
        mult = d[18]
        if d[19:22] != b"\x00\x00\x00":
            self.event("C10/forward-open-format", "reserved bytes after the timeout multiplier are not zero")
        if large:
            o2t_rpi, o2t_par, t2o_rpi, t2o_par = struct.unpack_from("<IIII", d, 22)
            size = o2t_par & 0xFFFF
            size2 = t2o_par & 0xFFFF
            pos = 38
        else:
            o2t_rpi, o2t_par, t2o_rpi, t2o_par = struct.unpack_from("<IHIH", d, 22)
            size = o2t_par & 0x01FF
            size2 = t2o_par & 0x01FF
            pos = 34
        transport = d[pos]
        try:
            segs, raw, end = E.take_counted(d, pos + 1)
        except E.EPathError as e:
            self.event("C09/connection-path", f"Forward Open connection path: {e} in {d[pos + 1:].hex()}")
            return W.build_mr_reply(req.service, 0x01, [0x0315])
        if end != len(d):
            self.event("C10/forward-open-format", f"{len(d) - end} byte(s) trail the connection path")
        route, tail = self._route_and_tail(segs)
        if route is None or tail != [("class", 2), ("instance", 1)]:
            self.event("C09/connection-path", f"Forward Open connection path {segs!r} does not end at the message router")
        if size != size2:
            self.event("C10/forward-open-format", f"O->T size {size} differs from T->O size {size2}")
        if (transport & 0x0F) != 3:
            self.event("C10/forward-open-format", f"transport class/trigger {transport:#04x} is not class 3")
        # C10/I2: the standard Forward Open is only sent after a large one was refused, and asks for 500 bytes
        if fr.session == 0 or fr.session not in self.sessions:
            self.event("C10/I1/forward-open-without-session", "Forward Open without a registered session")
        self.fo_log.append((kind, size, None, fr.session))
        busy = len(self.fo_log) <= self.policy.fo_refuse_first
        if busy or (large and self.policy.large_fo != "accept") or (not large and self.policy.std_fo != "accept"):
            if busy:
                status, ext = 0x01, [0x0113]
            elif large and self.policy.large_fo.startswith("refuse08"):
                status, ext = 0x08, []
            elif (self.policy.large_fo if large else self.policy.std_fo).startswith("refuse:"):
                # any other general status, e.g. vendor specific or reserved ones ('refuse:d0')
                status, ext = int((self.policy.large_fo if large else self.policy.std_fo)[7:], 16), []
            else:
                status, ext = 0x01, [0x0109]
            self.refused.append((kind, status))
            self.fo_log[-1] = (kind, size, False, fr.session)
            if large and self.policy.large_fo.endswith("bare") and not busy:
                # a device that does not know the service at all answers with the bare status: no Connection Manager failure data
                return W.build_mr_reply(req.service, status, ext, b"" if self.policy.large_fo == "refuse08bare" else b"\x01")
            # failure reply: serial, vendor, originator serial, remaining path size, reserved
            return W.build_mr_reply(req.service, status, ext, struct.pack("<HHI", serial, vendor, orig_serial) + b"\x00\x00")
        limit = self.policy.max_large_size if large else self.policy.max_std_size
        if size > limit or size < 16:
            self.refused.append((kind, 0x01))
            self.fo_log[-1] = (kind, size, False, fr.session)
            return W.build_mr_reply(req.service, 0x01, [0x0109], struct.pack("<HHI", serial, vendor, orig_serial) + b"\x00\x00")
        # a connection that lost its session without a Forward Close lingers in the target until it times out: its triple stays in use
        for c in list(self.connections.values()) + list(self.orphaned):
            if (c.serial, c.vendor, c.orig_serial) == (serial, vendor, orig_serial):
                self.event("C10/duplicate-forward-open", "Forward Open for a connection triple that is already open" + ("" if c in self.connections.values() else " (a connection left behind earlier, not yet timed out)"))
                self.refused.append((kind, 0x01))
                self.fo_log[-1] = (kind, size, False, fr.session)
                return W.build_mr_reply(req.service, 0x01, [0x0100], struct.pack("<HHI", serial, vendor, orig_serial) + b"\x00\x00")
        cid = self.policy.conn_ids[self._conn_i % len(self.policy.conn_ids)]
        self._conn_i += 1
        conn = Conn(session=fr.session, o2t=cid, t2o=t2o_req, serial=serial, vendor=vendor, orig_serial=orig_serial,
                    size=size, large=large, route=[(s[1], s[2]) for s in (route or [])], raw_triple=bytes(d[10:18]))
        if self.keep_seqs:
            conn.seqs = []
        self.connections[cid] = conn
        self.ever_granted.add(fr.session)
        self.fo_log[-1] = (kind, size, True, fr.session)
        data = struct.pack("<IIHHI", cid, t2o_req, serial, vendor, orig_serial) + struct.pack("<II", o2t_rpi, t2o_rpi) + b"\x00\x00"
        return W.build_mr_reply(req.service, 0, [], data)

    def _forward_close(self, req, fr):
        d = req.data
        if len(d) < 12:
            self.event("C10/forward-close-format", f"Forward Close with {len(d)} data bytes")
            return W.build_mr_reply(req.service, 0x13)
        serial, vendor, orig_serial = struct.unpack_from("<HHI", d, 2)
        words = d[10]
        if d[11] != 0:
            self.event("C10/forward-close-format", "reserved byte after the connection path size is not zero")
        raw = d[12:]
        if len(raw) != 2 * words:
            self.event("C10/forward-close-format", f"connection path size {words} words but {len(raw)} bytes follow")
        else:
            try:
                segs = E.parse(raw)
                route, tail = self._route_and_tail(segs)
                if route is None or tail != [("class", 2), ("instance", 1)]:
                    self.event("C09/connection-path", f"Forward Close connection path {segs!r} does not end at the message router")
                else:
                    # the close must travel the route the connection was opened along
                    for c in self.connections.values():
                        if (c.serial, c.vendor, c.orig_serial) == (serial, vendor, orig_serial) and c.session == fr.session:
                            if [(s[1], s[2]) for s in route] != list(c.route):
                                self.event("C09/forward-close-route", f"Forward Close route {[(s[1], s[2]) for s in route]!r}, the connection was opened along {list(c.route)!r}")
            except E.EPathError as e:
                self.event("C09/connection-path", f"Forward Close connection path: {e} in {raw.hex()}")
        if self.policy.fclose != "accept":
            return W.build_mr_reply(req.service, 0x01, [0x0107], struct.pack("<HHI", serial, vendor, orig_serial) + b"\x00\x00")
        for cid, c in list(self.connections.items()):
            if (c.serial, c.vendor, c.orig_serial) == (serial, vendor, orig_serial) and c.session == fr.session:
                del self.connections[cid]
                return W.build_mr_reply(req.service, 0, [], struct.pack("<HHI", serial, vendor, orig_serial) + b"\x00\x00")
        self.event("C10/forward-close-unknown", "Forward Close for a connection that is not open")
        return W.build_mr_reply(req.service, 0x01, [0x0107], struct.pack("<HHI", serial, vendor, orig_serial) + b"\x00\x00")

    def _unconnected_send(self, req, fr):
        d = req.data
        bad = lambda why: (self.event("C14/unconnected-send-format", why), W.build_mr_reply(0x52, 0x01, [0x0205]))[1]
        if len(d) < 4:
            return bad(f"Unconnected Send with {len(d)} data bytes")
        n = struct.unpack_from("<H", d, 2)[0]
        emb = d[4 : 4 + n]
        if len(emb) != n:
            return bad(f"embedded message length {n} but {len(emb)} bytes present")
        pos = 4 + n
        if n % 2:
            if pos >= len(d) or d[pos] != 0:
                return bad("odd-length embedded message not followed by a 0x00 pad byte")
            pos += 1
        if pos + 2 > len(d):
            return bad("route path size / reserved byte missing")
        words = d[pos]
        if d[pos + 1] != 0:
            return bad("reserved byte after the route path size is not zero")
        raw = d[pos + 2 :]
        if len(raw) != 2 * words:
            return bad(f"route path size {words} words but {len(raw)} bytes follow")
        try:
            segs = E.parse(raw)
        except E.EPathError as e:
            self.event("C09/route-path", f"Unconnected Send route: {e} in {raw.hex()}")
            return W.build_mr_reply(0x52, 0x01, [0x0315])
        if any(s[0] != "port" for s in segs):
            self.event("C09/route-path", f"Unconnected Send route contains non-port segments: {segs!r}")
        route = [(s[1], s[2]) for s in segs if s[0] == "port"]
        ereq = self._parse(emb, "ucsend")
        if ereq is None:
            return W.build_mr_reply(emb[0] if emb else 0, 0x04)
        self._log(ereq, "ucsend", route=route)
        if self.device is None:
            return W.build_mr_reply(ereq.service, 0x08)
        return self.device.handle(ereq, {"transport": "ucsend", "conn": None, "max_reply": 504, "target": self, "route": route})


class IdentityDevice:
    """Minimal object model: Identity object (class 1); everything else answered by `script`."""

    def __init__(self, script=None):
        self.script = script  # callable(req, info) -> (status, ext_words, data) | None
        self.target = None

    def attach(self, target):
        self.target = target

    def handle(self, req, info):
        if self.script is not None:
            r = self.script(req, info)
            if r is not None:
                if isinstance(r, (bytes, bytearray)):
                    return bytes(r)
                status, ext, data = r
                return W.build_mr_reply(req.service, status, ext, data)
        if req.path[:1] == [("class", 1)] and req.service == 0x01:
            # a chassis with several modules: the identity that answers is the one of the module the route leads to
            topo = getattr(self.target, "identity_by_route", None)
            idn = self.target.identity
            if topo is not None and info.get("route") is not None:
                idn = topo.get(tuple(tuple(x) for x in info["route"]))
                if idn is None:
                    return W.build_mr_reply(req.service, 0x01, [0x0312])  # link address not valid: nothing lives there
            return W.build_mr_reply(req.service, 0, [], W.identity_body(idn))
        return W.build_mr_reply(req.service, 0x08)

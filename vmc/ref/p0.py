"""P0 — the demo project of the repository's online tests, rebuilt from tests/pycomm3.L5X.

The L5X is the Studio 5000 export of the project the online tests run against.  For every tag it holds the raw
controller memory (<Data> hex) *and* the decorated value Rockwell's software derives from it.  `load()` builds a
Project whose templates are laid out with the reference rules of projects.py and whose memory is the raw data;
`conformance()` checks, without any pycomm3 code, that (a) every tag's raw length equals the reference size and
(b) the reference codec applied to the raw bytes at the reference offsets yields exactly the decorated values.
Instance ids / template ids / handles are taken from tests/offline/all_tags.json where the tag or type is recorded.
AOI-typed tags are left out (their internal layout is not exported).
"""
import json
import os
import struct
import xml.etree.ElementTree as ET

from . import codec as R
from .projects import ATOMS, Member, Project, TagDef, TypeDef, string_type, type_size

BUILTIN_IDS = {"STRING": (0xFCE, 0x0FCE), "TIMER": (0xF83, 0x0F83), "CONTROL": (0xF81, 0x0F81), "COUNTER": (0xF82, 0x0F82)}


def repo_dir():
    return os.path.abspath(os.environ.get("VMC_REPO", "/repo"))


def _builtin(name):
    tid, handle = BUILTIN_IDS[name]
    if name == "STRING":
        return string_type("STRING", tid, 82, handle)
    if name == "TIMER":
        return TypeDef("TIMER", tid, handle, 12, [Member("CTL", "DWORD", 0), Member("PRE", "DINT", 4), Member("ACC", "DINT", 8),
                                                   Member("EN", "BOOL", 3, 0, 7), Member("TT", "BOOL", 3, 0, 6), Member("DN", "BOOL", 3, 0, 5)], predefined=True)
    if name == "COUNTER":
        return TypeDef("COUNTER", tid, handle, 12, [Member("CTL", "DWORD", 0), Member("PRE", "DINT", 4), Member("ACC", "DINT", 8),
                                                     Member("CU", "BOOL", 3, 0, 7), Member("CD", "BOOL", 3, 0, 6), Member("DN", "BOOL", 3, 0, 5), Member("OV", "BOOL", 3, 0, 4), Member("UN", "BOOL", 3, 0, 3)], predefined=True)
    if name == "CONTROL":
        bits = [("EN", 7), ("EU", 6), ("DN", 5), ("EM", 4), ("ER", 3), ("UL", 2), ("IN", 1), ("FD", 0)]
        return TypeDef("CONTROL", tid, handle, 12, [Member("CTL", "DWORD", 0), Member("LEN", "DINT", 4), Member("POS", "DINT", 8)] + [Member(n, "BOOL", 3, 0, b) for n, b in bits], predefined=True)
    raise KeyError(name)


def _fixture():
    try:
        return json.load(open(os.path.join(repo_dir(), "tests", "offline", "all_tags.json")))
    except Exception:  # noqa
        return {}


def _fixture_types(fx):
    """type name -> (template instance id or None, template dict) gathered from the recorded upload."""
    out = {}

    def walk(dt, tid=None):
        if isinstance(dt, dict):
            cur = out.get(dt["name"], (None, None))
            out[dt["name"]] = (tid if tid is not None else cur[0], dt.get("template"), dt)
            for m in dt.get("internal_tags", {}).values():
                walk(m.get("data_type"))
    for t in fx.values():
        walk(t.get("data_type"), t.get("template_instance_id"))
    return out


_CACHE = {}


def load_cached():
    key = repo_dir()
    if key not in _CACHE:
        _CACHE[key] = load()
    q = _CACHE[key].clone()
    q.fixture = _CACHE[key].fixture
    q.fixture_types = _CACHE[key].fixture_types
    return q


def load():
    root = ET.parse(os.path.join(repo_dir(), "tests", "pycomm3.L5X")).getroot()
    ctrl = root.find("Controller")
    fx = _fixture()
    fxt = _fixture_types(fx)
    p = Project("P0", major=20, minor=19, product_name="1769-L23E-QBFC1 LOGIX5323E-QBFC1", program_name=ctrl.get("Name") or "pycomm3_demo")
    raw_udts = {}
    for dt in ctrl.find("DataTypes"):
        raw_udts[dt.get("Name")] = [(m.get("Name"), m.get("DataType"), int(m.get("Dimension")), m.get("Hidden") == "true", m.get("Target"), m.get("BitNumber")) for m in dt.find("Members")]
    types = {}
    synth = [0x400]

    def ids_for(name):
        tid, tmpl = (fxt.get(name) or (None, None, None))[:2]
        if tid is None:
            tid = synth[0]
            synth[0] += 1
        handle = (tmpl or {}).get("structure_handle", (tid * 37 + 11) & 0xFFFF)
        return tid, handle

    def get_type(name):
        if name in ATOMS:
            return name
        if name in types:
            return types[name]
        if name in BUILTIN_IDS:
            types[name] = p.add_type(_builtin(name))
            return types[name]
        if name not in raw_udts:
            raise KeyError(name)
        members = []
        off = 0
        align = 4
        for (mn, mt, dim, hidden, target, bit) in raw_udts[name]:
            if mt == "BIT":
                host = next(m for m in members if m.name == target)
                members.append(Member(mn, "BOOL", host.offset, 0, int(bit), hidden=hidden))
                continue
            if mt == "BOOL" and dim:
                mtyp, n, sz, al = "DWORD", dim // 32, 4, 4
            else:
                mtyp = get_type(mt)
                n = dim or 1
                sz = type_size(mtyp)
                al = 4 if isinstance(mtyp, TypeDef) else min(max(sz, 1), 4)
                if mt == "LINT":
                    al = 8 if name_align8(name) else 4
            off = (off + al - 1) // al * al
            members.append(Member(mn, mtyp, off, dim if mtyp != "DWORD" else n, None, hidden=hidden))
            off += sz * n
            align = max(align, al)
        size = (off + align - 1) // align * align
        tid, handle = ids_for(name)
        td = TypeDef(name, tid, handle, size, members)
        types[name] = p.add_type(td)
        return td

    def name_align8(name):
        return False  # this v20 controller aligns 8-byte members on 4 (checked against the recorded offsets)

    next_id = [0x7000]

    def add_tags(parent, scope):
        for t in parent:
            dtn = t.get("DataType")
            if dtn == "pycomm3_AOI" or t.get("TagType") != "Base":
                continue
            raw = None
            for d in t.findall("Data"):
                if d.get("Format") is None:
                    raw = bytes.fromhex(d.text.replace("\n", " "))
            if raw is None:
                continue
            dims = tuple(int(x) for x in (t.get("Dimensions") or "").split())
            name = t.get("Name")
            full = f"Program:{scope}.{name}" if scope else name
            if dtn == "BOOL" and dims:
                typ, dims = "DWORD", (dims[0] // 32,)
            else:
                typ = get_type(dtn)
            rec = fx.get(full)
            iid = rec["instance_id"] if rec else next_id[0]
            next_id[0] += 1
            tag = TagDef(name, typ, dims, iid, scope)
            tag.l5x = t
            if len(raw) == tag.nbytes:
                tag.data[:] = raw
            tag.raw = raw
            p.add(tag)

    add_tags(ctrl.find("Tags"), None)
    for prog in ctrl.find("Programs"):
        pn = prog.get("Name")
        rec_id = 0x10
        p.add(TagDef(f"Program:{pn}", None, (), 0x6000 + len(p.programs), kind="program", symbol_type=0x1068))
        add_tags(prog.find("Tags"), pn)
        for i, r in enumerate(prog.find("Routines")):
            p.add(TagDef(f"Routine:{r.get('Name')}", None, (), 0x5000 + i, scope=pn, kind="routine", symbol_type=0x106D))
    p.fixture_types = fxt
    p.fixture = fx
    return p


# ---------------------------------------------------------------- conformance (no pycomm3 code involved)
def _num(v):
    if v.startswith("2#"):
        return int(v[2:].replace("_", ""), 2)
    if v.startswith("16#"):
        return int(v[3:].replace("_", ""), 16)
    if v.startswith("8#"):
        return int(v[2:].replace("_", ""), 8)
    try:
        return int(v)
    except ValueError:
        return float(v.replace("1.#QNAN", "nan").replace("1.#INF", "inf").replace("-1.#INF", "-inf").replace("1.$", "inf"))


def conformance(p):
    """-> (leaf values checked, list of mismatch strings)"""
    mism = []
    checked = [0]

    def check_atom(path, typ, raw, node):
        checked[0] += 1
        v = node.get("Value")
        if typ == "BOOL":
            got, exp = (1 if raw else 0), _num(v)
        elif typ in ("REAL", "LREAL"):
            got = R.dec(ATOMS[typ][2], raw, 0)[0]
            exp = float(_num(v))
            if got != got and exp != exp:
                return
            if abs(got - exp) <= 1e-6 * max(1.0, abs(exp)):
                return
        else:
            d = ATOMS[typ][2]
            got = R.dec(d, raw, 0)[0]
            exp = _num(v)
            bits = d[1] * 8
            if exp >= 1 << (bits - 1) and d[2]:
                exp -= 1 << bits  # hex/binary radix shows the two's-complement pattern
        if got != exp:
            mism.append(f"{path}: reference decodes {got!r}, L5X decorated value {exp!r}")

    def check_struct(path, td, raw, node):
        if td.string_capacity is not None:
            return
        ms = {m.name: m for m in td.members}
        for ch in node:
            n = ch.get("Name")
            m = ms.get(n)
            if m is None:
                mism.append(f"{path}: member {n!r} of the L5X not in the reference layout")
                continue
            if ch.tag == "DataValueMember":
                dtn = ch.get("DataType")
                if dtn == "BOOL":
                    check_atom(f"{path}.{n}", "BOOL", (raw[m.offset] >> m.bit) & 1 if m.bit is not None else raw[m.offset], ch)
                elif dtn in ATOMS:
                    check_atom(f"{path}.{n}", dtn, raw[m.offset : m.offset + ATOMS[dtn][1]], ch)
            elif ch.tag == "ArrayMember":
                check_array(f"{path}.{n}", ch.get("DataType"), m.typ, raw[m.offset :], ch)
            elif ch.tag == "StructureMember":
                if isinstance(m.typ, TypeDef):
                    check_struct(f"{path}.{n}", m.typ, raw[m.offset : m.offset + m.typ.size], ch)

    def check_array(path, dtn, typ, raw, node):
        for idx, el in enumerate(node):
            if dtn == "BOOL":
                check_atom(f"{path}[{idx}]", "BOOL", (raw[idx // 8] >> (idx % 8)) & 1, el)
            elif dtn in ATOMS:
                sz = ATOMS[dtn][1]
                check_atom(f"{path}[{idx}]", dtn, raw[idx * sz : (idx + 1) * sz], el)
            elif isinstance(typ, TypeDef):
                st = el.find("Structure")
                if st is not None:
                    check_struct(f"{path}[{idx}]", typ, raw[idx * typ.size : (idx + 1) * typ.size], st)

    ntags = 0
    for t in p.all_tags():
        node = getattr(t, "l5x", None)
        if node is None:
            continue
        ntags += 1
        raw = t.raw
        if len(raw) != t.nbytes:
            mism.append(f"{t.full_name}: raw image is {len(raw)} bytes, reference layout needs {t.nbytes}")
            continue
        dec = strv = None
        for d in node.findall("Data"):
            if d.get("Format") == "Decorated":
                dec = d
            elif d.get("Format") == "String":
                strv = d
        if strv is not None and isinstance(t.typ, TypeDef) and t.typ.string_capacity is not None and not t.dims:
            ln = struct.unpack("<i", raw[:4])[0]
            checked[0] += 1
            if not (0 <= ln <= t.typ.string_capacity):
                mism.append(f"{t.full_name}: LEN {ln} outside capacity")
            continue
        if dec is None or len(dec) == 0:
            continue
        ch = dec[0]
        if ch.tag == "DataValue":
            if t.typ == "BOOL":
                check_atom(t.full_name, "BOOL", raw[0] & 1 if raw[0] in (0, 1) else 1, ch)
            else:
                check_atom(t.full_name, t.typ, raw, ch)
        elif ch.tag == "Array":
            check_array(t.full_name, ch.get("DataType"), t.typ, raw, ch)
        elif ch.tag == "Structure":
            if isinstance(t.typ, TypeDef):
                check_struct(t.full_name, t.typ, raw, ch)
    # recorded upload: template sizes and member offsets of the fixture must equal the reference layout
    for name, (tid, tmpl, dt) in getattr(p, "fixture_types", {}).items():
        td = next((x for x in p.types.values() if x.name == name), None)
        if td is None or dt is None:
            continue
        recorded = [k for k in dt.get("internal_tags", {}) if not k.startswith("__")]
        same_version = set(recorded) == {m.name for m in td.members}
        if same_version and tmpl and tmpl.get("structure_size") != td.size:
            mism.append(f"type {name}: recorded structure size {tmpl.get('structure_size')}, reference {td.size}")
        for mn, info in dt.get("internal_tags", {}).items():
            m = td.member(mn)
            if m is None:
                if not mn.startswith("__"):
                    mism.append(f"type {name}: recorded member {mn!r} not in the reference layout")
                continue
            checked[0] += 1
            if info.get("offset") != m.offset or ("bit" in info and info["bit"] != m.bit) or ("array" in info and not m.is_bit and info["array"] != m.dim):
                mism.append(f"type {name}.{mn}: recorded offset/bit/array {info.get('offset')}/{info.get('bit')}/{info.get('array')}, reference {m.offset}/{m.bit}/{m.dim}")
    return ntags, checked[0], mism

"""Reference SLC / MicroLogix target: PCCC object (class 0x67, service 0x4B) with a data table.

Written from the DF1 Protocol and Command Set manual (1770-6.5.16), "protected typed logical read / write
with three address fields" (CMD 0x0F, FNC 0xA2 / 0xAB / 0xAA), and the EtherNet/IP PCCC encapsulation
(requestor id).  Imports nothing from pycomm3.

Address fields: byte size (1), file number, file type (1), element number, sub-element number; a field value of
0xFF announces a 16-bit value in the following two bytes.
"""
import struct

from . import wire as W

FILE_TYPES = {0x82: "O", 0x83: "I", 0x84: "S", 0x85: "B", 0x86: "T", 0x87: "C", 0x88: "R", 0x89: "N", 0x8A: "F", 0x8D: "ST", 0x8E: "A", 0x91: "L"}
TYPE_CODE = {v: k for k, v in FILE_TYPES.items()}
ELEM_SIZE = {"O": 2, "I": 2, "S": 2, "B": 2, "T": 6, "C": 6, "R": 6, "N": 2, "F": 4, "ST": 84, "A": 2, "L": 4}


class SLCDevice:
    def __init__(self, files=None, strict_escape=True, processor="1747-L552 5/05"):
        # (type letter, file number) -> bytearray
        self.files = files if files is not None else {}
        self.target = None
        self.log = []  # dicts: fnc, size, file, type, element, sub, mask, data, raw
        self.strict_escape = strict_escape
        self.processor = processor
        self.sys0 = None  # image of system file 0 (the file directory), word addressed, or None when the target has none
        self.datalog = {}  # queue number -> list of pending records (bytes)

    def attach(self, target):
        self.target = target
        target.identity = dict(target.identity, product_name="1747-L552/C C/10 - DC 3.46", product_type=14, product_code=90, major=10, minor=3)

    # ------------------------------------------------------------------ data table helpers
    def make_file(self, typ, number, elements, fill=None):
        b = bytearray(ELEM_SIZE[typ] * elements)
        if fill is not None:
            for i in range(len(b)):
                b[i] = fill(i) & 0xFF
        self.files[(typ, number)] = b
        return b

    def make_directory(self, pad_to=200):
        """Build system file 0 in the SLC 5/05 layout from the data table: own size at word 0x23, file counts, 10-byte rows from byte 79."""
        rows = b""
        top = max((n for _, n in self.files), default=-1)
        by_no = {n: (t, f) for (t, n), f in self.files.items()}
        for n in range(top + 1):
            if n in by_no:
                t, f = by_no[n]
                rows += bytes([TYPE_CODE[t]]) + struct.pack("<H", len(f)) + bytes(7)
            else:
                rows += b"\x81" + bytes(9)
        img = bytearray(max(79 + len(rows), pad_to))
        img[79 : 79 + len(rows)] = rows
        img[46] = 3
        img[52] = len(self.files)
        struct.pack_into("<H", img, 0x46, len(img))
        self.sys0 = img
        return img

    def snapshot(self):
        return {k: bytes(v) for k, v in self.files.items()}

    def restore(self, snap):
        for k, v in snap.items():
            self.files[k][:] = v

    # ------------------------------------------------------------------ CIP
    def handle(self, req, info):
        if req.path[:1] == [("class", 1)] and req.service == 0x01:
            return W.build_mr_reply(req.service, 0, [], W.identity_body(self.target.identity))
        if req.path != [("class", 0x67), ("instance", 1)] or req.service != 0x4B:
            return W.build_mr_reply(req.service, 0x08)
        d = req.data
        if len(d) < 1 or d[0] != 7 or len(d) < 7 + 5:
            self.target.event("C18/pccc-format", f"requestor id / PCCC header malformed: {d[:16].hex()}")
            return W.build_mr_reply(req.service, 0x13)
        rid = d[:7]
        cmd, sts, tns, fnc = d[7], d[8], struct.unpack_from("<H", d, 9)[0], d[11] if len(d) > 11 else None
        body = d[12:]
        if sts != 0:
            self.target.event("C18/pccc-format", f"request STS {sts:#x}")
        if cmd == 0x06 and fnc == 0x03:  # diagnostic status
            data = bytes(5) + self.processor.encode().ljust(11, b" ") + bytes(8)
            return W.build_mr_reply(req.service, 0, [], rid + bytes([0x46, 0]) + struct.pack("<H", tns) + data)
        if cmd != 0x0F:
            return W.build_mr_reply(req.service, 0, [], rid + bytes([cmd | 0x40, 0x10]) + struct.pack("<H", tns))
        refuse = getattr(self, "refuse_next", None)
        if refuse is not None:
            # the controller refuses this command with the given STS byte (local 0x01..0x0F or remote 0x10..0xF0 error), nothing is executed
            self.refuse_next = None
            self.log.append({"fnc": fnc, "raw": bytes(body), "refused": refuse})
            status, data = refuse, b""
        else:
            status, data = self.pccc(fnc, body)
        out = rid + bytes([0x4F, status]) + struct.pack("<H", tns) + data
        return W.build_mr_reply(req.service, 0, [], out)

    def _field(self, body, pos):
        if pos >= len(body):
            raise ValueError("address field missing")
        v = body[pos]
        if v == 0xFF and self.strict_escape:
            if pos + 3 > len(body):
                raise ValueError("extended address field truncated")
            return struct.unpack_from("<H", body, pos + 1)[0], pos + 3
        return v, pos + 1

    def pccc(self, fnc, body):
        entry = {"fnc": fnc, "raw": bytes(body)}
        self.log.append(entry)
        if fnc == 0xA1 and self.sys0 is not None:
            # protected typed logical read with two address fields, system file 0: `size` bytes from word `element`
            try:
                size = body[0]
                fileno, pos = self._field(body, 1)
                ftype = body[pos]
                elem, pos = self._field(body, pos + 1)
            except (ValueError, IndexError) as e:
                entry["error"] = str(e)
                return 0x10, b""
            entry.update(size=size, file=fileno, type=ftype, element=elem)
            if pos != len(body) or fileno != 0 or ftype > 3 or size == 0 or elem * 2 + size > len(self.sys0):
                entry["error"] = "bad system file read"
                return 0x10, b""
            return 0, bytes(self.sys0[elem * 2 : elem * 2 + size])
        if fnc == 0xA2 and len(body) >= 3 and body[2] == 0xA5 and self.datalog:
            # data log queue: each read takes the oldest record of the queue; an empty queue answers with an error
            q = self.datalog.get(body[3] if len(body) > 3 else None)
            entry.update(type="datalog", element=body[3] if len(body) > 3 else None)
            if not q:
                return 0x10, b""
            return 0, q.pop(0)
        if fnc not in (0xA2, 0xAA, 0xAB):
            return 0x10, b""
        try:
            size = body[0]
            fileno, pos = self._field(body, 1)
            ftype = body[pos]
            pos += 1
            elem, pos = self._field(body, pos)
            sub, pos = self._field(body, pos)
        except (ValueError, IndexError) as e:
            entry["error"] = str(e)
            return 0x10, b""
        entry.update(size=size, file=fileno, type=FILE_TYPES.get(ftype, ftype), element=elem, sub=sub)
        typ = FILE_TYPES.get(ftype)
        f = self.files.get((typ, fileno))
        if f is None:
            entry["error"] = "no such file"
            return 0x10, b""
        esz = ELEM_SIZE[typ]
        start = elem * esz + sub * 2
        if fnc == 0xA2:
            if pos != len(body):
                entry["error"] = "trailing bytes"
                return 0x10, b""
            if size == 0 or start + size > len(f):
                entry["error"] = "beyond end of file"
                return 0x10, b""
            entry["range"] = (start, size)
            return 0, bytes(f[start : start + size])
        if fnc == 0xAB:
            if pos + 2 > len(body):
                return 0x10, b""
            mask = struct.unpack_from("<H", body, pos)[0]
            pos += 2
        else:
            mask = 0xFFFF
        data = body[pos:]
        entry.update(mask=mask, data=bytes(data))
        if len(data) != size or size == 0 or size % 2:
            entry["error"] = f"data length {len(data)} != byte size {size}"
            return 0x10, b""
        if start + size > len(f):
            entry["error"] = "beyond end of file"
            return 0x10, b""
        for i in range(0, size, 2):
            old = struct.unpack_from("<H", f, start + i)[0]
            new = struct.unpack_from("<H", data, i)[0]
            struct.pack_into("<H", f, start + i, (old & ~mask & 0xFFFF) | (new & mask))
        entry["range"] = (start, size)
        return 0, b""

"""Static sharding over long-lived worker processes (one fork each, at start)."""
import multiprocessing as mp
import os
import signal
import sys
import traceback

from .report import Report, ViolationStorm

_MOD = None
_TIER = None
_SEED = None


class ShardTimeout(BaseException):
    pass


def _alarm(signum, frame):
    raise ShardTimeout()


def _init(modname, tier, seed):
    global _MOD, _TIER, _SEED
    import importlib

    _MOD = importlib.import_module(modname)
    _TIER, _SEED = tier, seed


def _run(shard):
    # wall-clock alarm is only a backstop: it makes the run fail as *broken*, never a verdict
    limit = int(os.environ.get("VMC_SHARD_TIMEOUT", "1500" if _TIER != "thorough" else "9000"))
    signal.signal(signal.SIGALRM, _alarm)
    signal.alarm(limit)
    try:
        if isinstance(shard, tuple) and shard and shard[-1] == "debuglog":
            # environment dimension: the same shard with the library logging at its most verbose level
            from vmc.checks.harness import debug_logging

            with debug_logging():
                rep = _MOD.run_shard(shard[1] if shard[0] == "@" else shard[:-1], _TIER, _SEED)
            rep.violations = {k + "/with-debug-logging": v for k, v in rep.violations.items()}
            rep.viol_counts = {k + "/with-debug-logging": v for k, v in rep.viol_counts.items()}
            rep.nontrivial = {__import__("hashlib").blake2b(h + b"dbg", digest_size=8).digest() for h in rep.nontrivial}
        elif isinstance(shard, tuple) and shard and shard[-1] == "python-O":
            # environment dimension: the same shard in an interpreter started with -O (assert statements and `if __debug__` blocks are
            # compiled out): behaviour the property promises must not rest on them
            import pickle
            import subprocess

            env = dict(os.environ, PYTHONHASHSEED="0", PYTHONPATH=os.pathsep.join([os.path.dirname(os.path.dirname(os.path.dirname(os.path.abspath(__file__))))]))
            p = subprocess.run([sys.executable, "-O", "-m", "vmc.core.shardproc", _MOD.__name__, _TIER, str(_SEED)], input=pickle.dumps(shard[1] if shard[0] == "@" else shard[:-1]),  # ("@", x, "python-O") wraps a shard x that is not a tuple
                               capture_output=True, env=env, timeout=limit)
            mark = p.stdout.rfind(b"\n@@REPORT@@")
            if p.returncode != 0 or mark < 0:
                raise RuntimeError("python -O child failed (%s): %s" % (p.returncode, p.stderr.decode(errors="replace")[-1500:]))
            rep = pickle.loads(p.stdout[mark + len(b"\n@@REPORT@@"):])
            rep.violations = {k + "/under-python-O": v for k, v in rep.violations.items()}
            rep.viol_counts = {k + "/under-python-O": v for k, v in rep.viol_counts.items()}
        else:
            rep = _MOD.run_shard(shard, _TIER, _SEED)
        return ("ok", shard, rep.compact())
    except ViolationStorm as e:
        return ("ok", shard, e.report.compact())
    except MemoryError as e:
        # the shard ran into the address-space limit (runner.bootstrap): the library produced or consumed data of absurd size - a verdict, reported
        # with the place where memory ran out; nothing of the kind happens on the unchanged tree (the limit is several times what the checks need)
        import gc

        gc.collect()
        tb = traceback.extract_tb(e.__traceback__)
        where = next((f"{os.path.basename(fr.filename)}:{fr.lineno} in {fr.name}" for fr in reversed(tb) if "/pycomm3/" in fr.filename), None) or (f"{os.path.basename(tb[-1].filename)}:{tb[-1].lineno} in {tb[-1].name}" if tb else "?")
        rep = Report()
        rep.case(("memory", repr(shard)), outcome="memory-exhausted")
        rep.violation("resource/memory-exhausted", f"shard {shard!r}: a value or buffer of absurd size made the process hit its memory limit (at {where}); the library call neither returned a sane result nor raised a library exception",
                      {"kind": "memory", "shard": list(shard) if isinstance(shard, tuple) else shard})
        return ("ok", shard, rep.compact())
    except BaseException as e:  # harness failure, reported as broken
        return ("err", shard, "".join(traceback.format_exception(type(e), e, e.__traceback__)))
    finally:
        signal.alarm(0)


def run_shards(modname, shards, tier, seed, workers=None):
    """Run every shard; returns (merged Report, list of harness errors)."""
    workers = workers or int(os.environ.get("VMC_WORKERS", "0")) or min(16, os.cpu_count() or 1)
    merged = Report()
    errors = []
    if workers <= 1 or len(shards) <= 1:
        _init(modname, tier, seed)
        results = map(_run, shards)
        for status, shard, payload in results:
            if status == "ok":
                merged.merge(payload)
            else:
                errors.append((shard, payload))
        return merged, errors
    ctx = mp.get_context("fork")
    with ctx.Pool(min(workers, len(shards)), initializer=_init, initargs=(modname, tier, seed)) as pool:
        for status, shard, payload in pool.imap_unordered(_run, shards, chunksize=1):
            if status == "ok":
                merged.merge(payload)
            else:
                errors.append((shard, payload))
    return merged, errors

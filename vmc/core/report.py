"""Accumulating what a check covered and what it found; mergeable across worker processes."""
import hashlib
import json


def _h(obj):
    return hashlib.blake2b(repr(obj).encode("utf-8", "backslashreplace"), digest_size=8).digest()


class Violation:
    __slots__ = ("sig", "msg", "replay")

    def __init__(self, sig, msg, replay):
        self.sig = sig  # structural signature: clause/site/class, never concrete values
        self.msg = msg  # human readable, with one concrete witness
        self.replay = replay  # JSON-able dict understood by the check's replay()

    def to_json(self):
        return {"sig": self.sig, "msg": self.msg, "replay": self.replay}


class ViolationStorm(BaseException):
    """Raised by Report.violation when one shard has recorded STORM violations; carries the report so far."""

    def __init__(self, report):
        super().__init__("violation storm")
        self.report = report


class Report:
    STORM = 20000
    STORM_SIG = 150  # ... or 150 of one structural signature
    """Counters + violations for one shard (or the merged whole)."""

    MAX_PER_SIG = 3
    MAX_SAMPLES = 8
    DISTINCT_CAP = 3_000_000

    def __init__(self):
        self.evaluations = 0  # executions of library code driven by the check
        self.transitions = 0  # individual real API / codec calls
        self.cases = 0  # cases enumerated
        self.nontrivial = set()  # hashes of distinct non-trivial case keys
        self.nontrivial_count = 0  # distinct keys of completed shards (shards are disjoint by construction: keys carry the shard's label)
        self.nontrivial_overflow = 0
        self.outcomes = {}  # label -> count (to expose vacuous exploration)
        self.violations = {}  # sig -> [Violation]
        self.viol_counts = {}  # sig -> total count
        self.samples = []
        self.extra = {}  # name -> number (summed) / list (extended) / set (union)
        self.capped = []  # names of caps that were hit (none allowed when exhaustive)

    # ---- recording
    def case(self, key, nontrivial=True, outcome=None, calls=1):
        """One enumerated case. `key` identifies the case (hashed to count distinct ones)."""
        self.cases += 1
        self.evaluations += 1
        self.transitions += calls
        if nontrivial:
            if len(self.nontrivial) < self.DISTINCT_CAP:
                self.nontrivial.add(_h(key))
            else:
                self.nontrivial_overflow += 1
        if outcome is not None:
            self.outcomes[outcome] = self.outcomes.get(outcome, 0) + 1

    def outcome(self, label, n=1):
        self.outcomes[label] = self.outcomes.get(label, 0) + n

    def sample(self, obj):
        if len(self.samples) < self.MAX_SAMPLES:
            self.samples.append(obj)

    def violation(self, sig, msg, replay):
        self.viol_counts[sig] = self.viol_counts.get(sig, 0) + 1
        self._nviol = getattr(self, "_nviol", 0) + 1
        if self._nviol == self.STORM or self.viol_counts[sig] == self.STORM_SIG:
            # thousands of violations in one shard: the verdict is clear, going on only burns time (a broken library is often a slow one too)
            self.cap(f"shard stopped after {self._nviol} violations")
            raise ViolationStorm(self)
        lst = self.violations.setdefault(sig, [])
        if len(lst) < self.MAX_PER_SIG:
            lst.append(Violation(sig, msg, replay))

    def add(self, name, n=1):
        self.extra[name] = self.extra.get(name, 0) + n

    def union(self, name, items):
        self.extra.setdefault(name, set()).update(items)

    def cap(self, name):
        if name not in self.capped:
            self.capped.append(name)

    # ---- merging
    def merge(self, other):
        self.evaluations += other.evaluations
        self.transitions += other.transitions
        self.cases += other.cases
        self.nontrivial |= other.nontrivial
        self.nontrivial_count += other.nontrivial_count
        self.nontrivial_overflow += other.nontrivial_overflow
        for k, v in other.outcomes.items():
            self.outcomes[k] = self.outcomes.get(k, 0) + v
        for sig, lst in other.violations.items():
            mine = self.violations.setdefault(sig, [])
            for v in lst:
                if len(mine) < self.MAX_PER_SIG:
                    mine.append(v)
        for sig, n in other.viol_counts.items():
            self.viol_counts[sig] = self.viol_counts.get(sig, 0) + n
        for s in other.samples:
            if len(self.samples) < self.MAX_SAMPLES:
                self.samples.append(s)
        for k, v in other.extra.items():
            if isinstance(v, set):
                self.extra.setdefault(k, set()).update(v)
            elif isinstance(v, list):
                self.extra.setdefault(k, []).extend(v)
            else:
                self.extra[k] = self.extra.get(k, 0) + v
        for c in other.capped:
            self.cap(c)
        return self

    @property
    def distinct_nontrivial(self):
        # overflowed cases are not counted (conservative)
        return self.nontrivial_count + len(self.nontrivial)

    def compact(self):
        """End of a shard: keep the number of distinct keys, drop the hashes (saves memory in the parent)."""
        self.nontrivial_count += len(self.nontrivial)
        self.nontrivial = set()
        return self


def jsonable(o):
    if isinstance(o, (bytes, bytearray)):
        return {"hex": bytes(o).hex()}
    if isinstance(o, (set, frozenset)):
        return sorted((jsonable(x) for x in o), key=repr)
    if isinstance(o, (list, tuple)):
        return [jsonable(x) for x in o]
    if isinstance(o, dict):
        return {str(k): jsonable(v) for k, v in o.items()}
    if isinstance(o, float):
        if o != o or o in (float("inf"), float("-inf")):
            return repr(o)
        return o
    if isinstance(o, (int, str, bool)) or o is None:
        return o
    return repr(o)


def unjson(o):
    """Inverse of jsonable for the {"hex": ...} convention."""
    if isinstance(o, dict):
        if set(o) == {"hex"}:
            return bytes.fromhex(o["hex"])
        return {k: unjson(v) for k, v in o.items()}
    if isinstance(o, list):
        return [unjson(x) for x in o]
    return o


def dumps(o):
    return json.dumps(jsonable(o), indent=1, sort_keys=True)

"""The explorer: choice points, deviation-bounded DFS (E1), explicit-state BFS (E2).

Nothing here imports pycomm3.  A *scenario* is a deterministic callable
``scenario(ctx) -> outcome`` that builds a fresh world, drives the real
implementation and returns a hashable outcome label; every place where the
environment may answer in more than one way calls ``ctx.choose(label, n, default)``.
"""
from collections import deque


class HarnessBug(BaseException):
    """The reference world itself failed (not an I/O error it models): must never be swallowed by the library's except clauses."""


class BudgetExceeded(BaseException):
    """Raised by fakes when a step budget is exhausted (non-termination detector).

    BaseException so that the library's blanket ``except Exception`` cannot swallow it.
    """


class Diverged(Exception):
    """A replayed prefix met a different choice point than recorded: uncaptured nondeterminism."""


class Ctx:
    """Choice recorder / replayer for one execution."""

    __slots__ = ("prefix", "points", "choices", "strict")

    def __init__(self, prefix=(), expect=None):
        self.prefix = list(prefix)
        self.points = []  # (label, n, default)
        self.choices = []
        self.strict = expect  # optional list of (label, n) recorded earlier for the prefix

    def choose(self, label, n, default=0):
        """Return an int in range(n).  Forced by the prefix, else `default`."""
        i = len(self.choices)
        if n <= 0:
            raise Diverged(f"choice point {label!r} with arity {n}")
        if i < len(self.prefix):
            c = self.prefix[i]
            if self.strict is not None and i < len(self.strict):
                el, en = self.strict[i]
                if (el, en) != (label, n):
                    raise Diverged(
                        f"replay divergence at #{i}: recorded {(el, en)!r}, now {(label, n)!r}"
                    )
            if not (0 <= c < n):
                raise Diverged(f"forced choice {c} out of range for {label!r}/{n}")
        else:
            c = default
        self.points.append((label, n, default))
        self.choices.append(c)
        return c

    @property
    def deviations(self):
        return sum(1 for (l, n, d), c in zip(self.points, self.choices) if c != d)


class NoChoice(Ctx):
    """A context that always takes the default (for scenarios run without exploration)."""


def explore(scenario, bound, on_exec=None, max_execs=None, root=(), part=None):
    """Iterative deviation bounding (CHESS-style, 'deviation' in place of 'preemption').

    Runs `scenario` with every choice vector that departs from the defaults in at most
    `bound` places.  Every execution runs to completion.  Returns a stats dict.
    `on_exec(ctx, outcome)` is called after each execution.
    The exploration is exhaustive within the bound unless `max_execs` is hit, which is
    reported as ``capped``.
    `part=(k, n)` splits one exploration over n workers: worker k explores the executions whose FIRST deviation is at a
    choice point with index = k (mod n); the all-defaults execution is reported by worker 0 only.
    """
    stats = {"execs": 0, "outcomes": {}, "capped": False, "max_points": 0, "bound": bound}

    # explicit stack instead of recursion: (prefix, recorded points for the prefix, deviations so far)
    # `root` forces a prefix of choices (used to shard one exploration over several workers by first choice)
    stack = [(list(root), None if root else [], None if root else 0)]
    while stack:
        prefix, expect, devs = stack.pop()
        if max_execs is not None and stats["execs"] >= max_execs:
            stats["capped"] = True
            break
        ctx = Ctx(prefix, expect)
        outcome = scenario(ctx)
        stats["execs"] += 1
        try:
            key = outcome if outcome.__hash__ and hash(outcome) is not None else repr(outcome)
        except TypeError:
            key = repr(outcome)
        stats["outcomes"][key] = stats["outcomes"].get(key, 0) + 1
        if len(ctx.points) > stats["max_points"]:
            stats["max_points"] = len(ctx.points)
        is_root = part is not None and not prefix
        if on_exec is not None and not (is_root and part[0] != 0):
            on_exec(ctx, outcome)
        if devs is None:  # root prefix: count its deviations from the defaults met on the way
            devs = sum(1 for (l, n, d), c in zip(ctx.points[: len(prefix)], ctx.choices[: len(prefix)]) if c != d)
        if devs >= bound:
            continue
        rec = [(l, n) for (l, n, d) in ctx.points]
        for i in range(len(prefix), len(ctx.points)):
            if is_root and i % part[1] != part[0]:
                continue
            label, n, d = ctx.points[i]
            for alt in range(n):
                if alt == d:
                    continue
                stack.append((ctx.choices[:i] + [alt], rec[: i + 1], devs + 1))
    return stats


def check_deterministic(scenario, prefix=()):
    """Run the same execution twice and compare outcome and choice-point trace."""
    a = Ctx(prefix)
    oa = scenario(a)
    b = Ctx(prefix)
    ob = scenario(b)
    if oa != ob or a.points != b.points:
        raise Diverged(f"non-deterministic scenario: {oa!r} vs {ob!r}")
    return oa


def bfs(initial_events, build, enabled, canon, invariant, max_depth=None, dedup=True, max_states=None):
    """Explicit-state breadth-first search over event histories.

    A state is the event history reaching it; ``build(hist)`` constructs a fresh world and
    replays the history through the real API, returning the world; ``enabled(world)`` lists
    the events enabled there; ``canon(world)`` is the canonical abstraction used for
    de-duplication; ``invariant(world, hist)`` evaluates the oracle (it records violations
    itself).  Returns stats.
    """
    stats = {"states": 0, "transitions": 0, "max_depth": 0, "capped": False, "histories": 0}
    w0 = build(list(initial_events))
    invariant(w0, list(initial_events))
    seen = {canon(w0)}
    frontier = deque([list(initial_events)])
    stats["states"] = 1
    succ = {}
    while frontier:
        hist = frontier.popleft()
        depth = len(hist) - len(initial_events)
        if max_depth is not None and depth >= max_depth:
            continue
        w = build(hist)
        src = canon(w)
        for ev in enabled(w):
            nxt_hist = hist + [ev]
            nxt = build(nxt_hist)
            stats["transitions"] += 1
            stats["histories"] += 1
            invariant(nxt, nxt_hist)
            k = canon(nxt)
            succ.setdefault((src, ev), set()).add(k)
            if depth + 1 > stats["max_depth"]:
                stats["max_depth"] = depth + 1
            if dedup:
                if k in seen:
                    continue
                seen.add(k)
            else:
                seen.add(k)
            stats["states"] = len(seen)
            if max_states is not None and len(seen) >= max_states:
                stats["capped"] = True
                return stats
            frontier.append(nxt_hist)
    stats["states"] = len(seen)
    # abstraction check: a (state, event) pair reached through different histories must
    # always lead to the same abstract successor, otherwise canon merges states with
    # different futures.
    stats["abstraction_conflicts"] = [
        (repr(s), repr(e), sorted(map(repr, ks))) for (s, e), ks in succ.items() if len(ks) > 1
    ]
    return stats

"""bin/check entry point: run a check, match findings, write replays + evidence, set exit code."""
import hashlib
import importlib
import json
import os
import re
import sys
import time

VERIF = os.path.dirname(os.path.dirname(os.path.dirname(os.path.abspath(__file__))))
FINDINGS = os.path.join(VERIF, "known_findings.txt")


def repo_dir():
    return os.path.abspath(os.environ.get("VMC_REPO", "/repo"))


def bootstrap():
    """Deterministic process + the implementation under test importable from the working tree."""
    if os.environ.get("PYTHONHASHSEED") != "0":
        os.environ["PYTHONHASHSEED"] = "0"
        os.execv(sys.executable, [sys.executable] + sys.argv)
    sys.dont_write_bytecode = True
    try:
        # a library that builds a value of astronomic size must fail (MemoryError: a foreign exception, hence a verdict), not take the machine down
        import resource

        lim = int(os.environ.get("VMC_MEMORY_LIMIT_MB", "4096")) << 20
        resource.setrlimit(resource.RLIMIT_AS, (lim, lim))
    except Exception:  # noqa - no such limit on this platform: nothing lost on the unchanged tree
        pass
    rd = repo_dir()
    sys.path[:] = [p for p in sys.path if os.path.abspath(p or ".") != rd]
    sys.path.insert(0, rd)
    if VERIF not in sys.path:
        sys.path.insert(1, VERIF)
    import logging

    logging.disable(logging.CRITICAL)
    os.environ.setdefault("PYCOMM3_VERIF", "1")
    from vmc.ref import net

    net.install()  # seams on the stdlib, before pycomm3 is imported
    import pycomm3

    here = os.path.dirname(os.path.abspath(pycomm3.__file__))
    if os.path.dirname(here) != rd:
        print(f"BROKEN: pycomm3 imported from {here}, expected {rd}", file=sys.stderr)
        sys.exit(2)


def load_findings():
    known, fixed = {}, []
    if not os.path.exists(FINDINGS):
        return known, fixed
    for line in open(FINDINGS, encoding="utf-8"):
        line = line.strip()
        if not line or line.startswith("#"):
            continue
        m = re.match(r"finding:\s+property=(\S+)\s+sig=(\S+)\s+::\s+(.*)$", line)
        if m:
            known[(m.group(1), m.group(2))] = m.group(3)
            continue
        m = re.match(r"fixed:\s+property=(\S+)\s+(\S+)\s+(.*)$", line)
        if m:
            fixed.append((m.group(1), m.group(2), m.group(3)))
    return known, fixed


def _slug(sig):
    s = re.sub(r"[^A-Za-z0-9_.-]+", "_", sig)[:80]
    return s + "-" + hashlib.blake2b(sig.encode(), digest_size=4).hexdigest()


def main(argv=None):
    argv = list(sys.argv[1:] if argv is None else argv)
    bootstrap()
    from vmc.core import par
    from vmc.core.report import dumps, jsonable, unjson

    if argv and argv[0] == "--replay":
        path = argv[1]
        rep = json.load(open(path))
        if rep["sig"].endswith("/under-python-O") and not sys.flags.optimize:
            os.execv(sys.executable, [sys.executable, "-O"] + sys.argv)  # the environment the violation was found in
        mod = importlib.import_module(rep["module"])
        rr = unjson(rep["replay"])
        if isinstance(rr, dict) and rr.get("kind") == "memory":
            sh = rr["shard"]
            res, errs = par.run_shards(rep["module"], [tuple(sh) if isinstance(sh, list) else sh], rep.get("tier", "quick"), rep.get("seed", 0), workers=1)
            ok = not errs and not res.violations
            print("REPLAY", "holds" if ok else "VIOLATES", "property=%s sig=%s" % (rep["property_id"], rep["sig"]))
            return 0 if ok else 1
        if rep["sig"].endswith("/with-debug-logging"):
            from vmc.checks.harness import debug_logging

            with debug_logging():
                ok = mod.replay(unjson(rep["replay"]))
        else:
            ok = mod.replay(unjson(rep["replay"]))
        print("REPLAY", "holds" if ok else "VIOLATES", "property=%s sig=%s" % (rep["property_id"], rep["sig"]))
        return 0 if ok else 1

    if len(argv) < 1:
        print("usage: bin/check <Cxx> [quick|thorough]  |  bin/check --replay <file>", file=sys.stderr)
        return 2
    pid = argv[0].upper()
    tier = (argv[1] if len(argv) > 1 else os.environ.get("VERIF_TIER", "quick")).lower()
    if tier not in ("quick", "thorough"):
        tier = "quick"
    try:
        seed = int(os.environ.get("VERIF_SEED", "0"))
    except ValueError:
        seed = 0
    modname = "vmc.checks." + pid.lower()
    mod = importlib.import_module(modname)

    t0 = time.time()
    shards = mod.shards(tier, seed)
    report, errors = par.run_shards(modname, shards, tier, seed)
    if hasattr(mod, "finalize"):
        mod.finalize(report, tier, seed)
    wall = time.time() - t0

    if errors:
        for shard, tb in errors[:5]:
            print(f"BROKEN: harness error in shard {shard!r}\n{tb}", file=sys.stderr)
        print(f"BROKEN: {len(errors)} shard(s) failed inside the harness; no verdict", file=sys.stderr)
        return 2

    known, fixed = load_findings()
    OUT = os.environ.get("VMC_OUT", VERIF)  # mutation runs write their evidence/replays elsewhere
    os.makedirs(os.path.join(OUT, "replays", pid), exist_ok=True)
    os.makedirs(os.path.join(OUT, "evidence"), exist_ok=True)
    new_violation = False
    known_hit = []
    lines = []
    for sig in sorted(report.violations):
        vs = report.violations[sig]
        n = report.viol_counts.get(sig, len(vs))
        if (pid, sig) in known:
            known_hit.append(sig)
            lines.append(f"KNOWN-FINDING: property={pid} sig={sig} ({n} case(s)) {known[(pid, sig)]}")
            continue
        new_violation = True
        v = vs[0]
        path = os.path.join(OUT, "replays", pid, _slug(sig) + ".json")
        with open(path, "w") as f:
            f.write(
                dumps(
                    {
                        "property_id": pid,
                        "sig": sig,
                        "msg": v.msg,
                        "module": modname,
                        "tier": tier,
                        "seed": seed,
                        "count": n,
                        "replay": v.replay,
                        "others": [x.replay for x in vs[1:]],
                    }
                )
            )
        lines.append(f"VIOLATION property={pid} replay={path}")
        lines.append(f"  sig={sig} cases={n} :: {v.msg}")
    stale = [s for (p, s) in known if p == pid and s not in report.violations]
    for s in stale:
        lines.append(f"STALE-FINDING: property={pid} sig={s} (listed, but nothing in the explored space fails that way)")

    meta = getattr(mod, "META", {})
    desc = mod.describe(tier, seed) if hasattr(mod, "describe") else {}
    exhaustive = not report.capped and desc.get("exhaustive", True)
    extra = {k: (sorted(map(repr, v)) if isinstance(v, set) else v) for k, v in report.extra.items()}
    states = int(extra.pop("states", 0) or report.distinct_nontrivial or report.cases or 1)
    coverage = {
        "states": max(states, 1),
        "transitions": max(int(report.transitions), 1),
        "traces_validated_against_impl": int(report.evaluations),
        "evaluations": max(int(report.evaluations), 1),
        "distinct_nontrivial": int(report.distinct_nontrivial),
        "rule": meta.get("rule", ""),
        "samples": jsonable(report.samples) or ["(no sample recorded)"],
        "exhaustive": bool(exhaustive),
        "caps_hit": report.capped,
        "distinct_outcomes": len(report.outcomes),
        "outcomes": {str(k): v for k, v in sorted(report.outcomes.items(), key=lambda kv: str(kv[0]))[:60]},
        "bounds": desc.get("bounds", {}),
        "explanation": meta.get("explanation", ""),
        "shards": len(shards),
        "nontrivial_not_counted_beyond_cap": report.nontrivial_overflow,
        "violation_signatures": {s: report.viol_counts[s] for s in sorted(report.viol_counts)},
        "known_findings_hit": known_hit,
        "extra": jsonable(extra),
    }
    ev = {
        "property_id": pid,
        "tier": tier,
        "seed": seed,
        "level": "model_checking",
        "coverage": coverage,
        "assumptions": meta.get("assumptions", []),
        "wall_s": round(wall, 3),
        "violations": sum(report.viol_counts[s] for s in report.viol_counts if (pid, s) not in known),
    }
    with open(os.path.join(OUT, "evidence", pid + ".json"), "w") as f:
        json.dump(ev, f, indent=1, sort_keys=True)
        f.write("\n")

    for l in lines:
        print(l)
    print(
        f"{pid} {tier}: cases={report.cases} executions={report.evaluations} calls={report.transitions} "
        f"distinct_nontrivial={report.distinct_nontrivial} outcomes={len(report.outcomes)} "
        f"exhaustive={exhaustive} wall={wall:.1f}s violations={ev['violations']} known={len(known_hit)}"
    )
    return 1 if new_violation else 0

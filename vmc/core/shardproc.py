"""Child process for environment dimensions that need another interpreter configuration (python -O): runs one shard of one check
module and writes the pickled Report to stdout.  Started by par._run; argv: module tier seed, the shard is pickled on stdin."""
import pickle
import sys


def main():
    from vmc.core import runner

    runner.bootstrap()
    import importlib

    modname, tier, seed = sys.argv[1], sys.argv[2], int(sys.argv[3])
    shard = pickle.load(sys.stdin.buffer)
    mod = importlib.import_module(modname)
    from vmc.core.report import ViolationStorm

    try:
        rep = mod.run_shard(shard, tier, seed)
    except ViolationStorm as e:
        rep = e.report
    out = sys.__stdout__.buffer
    out.write(b"\n@@REPORT@@" + pickle.dumps(rep.compact()))
    out.flush()


if __name__ == "__main__":
    main()
